//! libFuzzer target for C06 (thorough tier): coverage-guided byte strings into parse_fen with
//! the same post-parse oracle as mon-core's fenmon (acceptance conditions judged by the model on
//! the board read back), built with ASan + debug assertions by cargo-fuzz.
#![no_main]
use chess_bitboard::{Color, Piece, Pos};
use libfuzzer_sys::fuzz_target;
use refmodel::{Col, Kind, Position};

fn observe(b: &chess_movegen::Board) -> Position {
    let mut p = Position::empty();
    for s in 0..64u8 {
        if let Some((c, k)) = b.raw().get(Pos::from_u8(s).unwrap()) {
            let c = if c == Color::White { Col::W } else { Col::B };
            let k = match k {
                Piece::Pawn => Kind::P,
                Piece::Knight => Kind::N,
                Piece::Bishop => Kind::B,
                Piece::Rook => Kind::R,
                Piece::Queen => Kind::Q,
                Piece::King => Kind::K,
            };
            p.board[s as usize] = Some((c, k));
        }
    }
    p.turn = if b.turn() == Color::White { Col::W } else { Col::B };
    let dbg = format!("{b:?}");
    for line in dbg.lines() {
        if let Some(r) = line.strip_prefix("castle rights: ") {
            for ch in r.chars() {
                match ch {
                    'K' => p.castle[0] = true,
                    'Q' => p.castle[1] = true,
                    'k' => p.castle[2] = true,
                    'q' => p.castle[3] = true,
                    _ => {}
                }
            }
        } else if let Some(e) = line.strip_prefix("en-passant: ") {
            p.ep = "ABCDEFGH".find(e.trim()).map(|i| i as u8);
        }
    }
    p
}

fuzz_target!(|data: &[u8]| {
    match chess_movegen::fen::parse_fen(data) {
        Err(e) => {
            let _ = format!("{e}");
        }
        Ok(b) => {
            let p = observe(&b);
            if let Err(why) = p.c06_ok() {
                panic!("C06: accepted board violates '{why}': {}", p.to_fen());
            }
            // a few safe calls on the accepted position (C07 flavour)
            let n = b.legals().count();
            let _ = (b.state(), b.in_check(), b.to_string(), b.zobrist(), n);
            if let Some(m) = b.legals().next() {
                let _ = b.move_new(m).map(|nb| nb.legals().len());
            }
        }
    }
});
