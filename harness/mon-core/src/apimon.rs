//! C07: no sequence of safe public calls on an accepted position can panic, overflow, index out of
//! bounds or otherwise reach undefined behaviour.
//!
//! An API-sequence fuzzer; the oracle is the build it runs in: the `chk` flavour traps every
//! debug_assert!, std unsafe-precondition check and arithmetic overflow, Miri reports UB on the
//! unchecked release paths, ASan / valgrind catch out-of-range reads and writes, and a digest of
//! every deterministic observable is compared between `chk` and `ship` on the same seed.

use crate::engmon::CountingTimeout;
use crate::fenmon;
use crate::real::{self, col, kind, mv, mv_back, pos};
use chess_bitboard::{BitBoard, Color};
use chess_engine::{Engine, ThreeFold};
use chess_movegen::Board;
use refmodel::json::{obj, J};
use refmodel::report::Collector;
use refmodel::rng::{fnv_mix, mix3, Rng};
use refmodel::workload::{self, Theme, THEMES};
use refmodel::*;
use std::hash::{Hash, Hasher};
use std::panic::{catch_unwind, AssertUnwindSafe};

pub struct Digest(pub u64);
impl Digest {
    fn u(&mut self, x: u64) {
        self.0 = fnv_mix(self.0, x);
    }
    fn s(&mut self, s: &str) {
        for b in s.bytes() {
            self.0 = fnv_mix(self.0, b as u64);
        }
    }
}

fn random_triple(rng: &mut Rng) -> Mv {
    Mv { from: rng.below(64) as u8, to: rng.below(64) as u8, promo: *rng.pick(&[None, None, Some(Kind::Q), Some(Kind::N), Some(Kind::R), Some(Kind::B)]) }
}

/// One API call sequence on `board`; every observable goes into the digest.
fn api_sequence(stats: &mut Vec<&'static str>, rng: &mut Rng, board: &Board, d: &mut Digest, n_ops: usize, search_budget: u64) {
    let mut b = *board;
    let mut tf = ThreeFold::new();
    tf.add(b);
    for _ in 0..n_ops {
        let op = rng.below(26);
        stats.push(match op {
            0 | 1 => "api:legals",
            2 => "api:legals_masked",
            3 => "api:king_legals",
            4 | 5 | 6 => "api:movegen-ops",
            7 => "api:is_legal",
            8 | 9 | 10 | 11 => "api:move",
            12 => "api:king_sq",
            13 => "api:state",
            14 => "api:hash",
            15 => "api:display-debug",
            16 => "api:perft",
            17 | 18 => "api:search",
            19 => "api:threefold",
            20 => "api:raw",
            21 => "api:reparse",
            22 => "api:builder",
            _ => "api:legals-drain-and-play",
        });
        match op {
            0 | 1 => {
                let mut v: Vec<Mv> = b.legals().map(mv_back).collect();
                v.sort();
                d.u(v.len() as u64);
                for m in v {
                    d.s(&m.uci());
                }
            }
            2 => {
                let mask = rng.next_u64() | if rng.chance(1, 3) { rng.next_u64() } else { 0 };
                let g = b.legals_masked(BitBoard::from_u64(mask));
                d.u(g.len() as u64);
                let mut v: Vec<Mv> = g.map(mv_back).collect();
                v.sort();
                for m in v {
                    d.s(&m.uci());
                }
            }
            3 => {
                for cl in [Color::White, Color::Black] {
                    let g = b.king_legals(cl);
                    d.u(g.len() as u64);
                    d.u(g.is_empty() as u64);
                    d.u(g.count() as u64);
                }
            }
            4 | 5 | 6 => {
                let mut g = b.legals();
                let legal_here: Vec<Mv> = b.legals().map(mv_back).collect();
                for _ in 0..rng.range(1, 14) {
                    match rng.below(9) {
                        0 | 1 => {
                            if let Some(m) = g.next() {
                                d.s(&mv_back(m).uci());
                            } else {
                                d.u(0);
                            }
                        }
                        2 => d.u(g.len() as u64),
                        3 => d.u(g.is_empty() as u64),
                        4 => d.u(g.size_hint().0 as u64),
                        5 => {
                            let m = match rng.below(4) {
                                0 => rng.next_u64() | rng.next_u64(),
                                1 => rng.next_u64() & rng.next_u64(),
                                2 => b[!b.turn()].to_u64(), // captures only, as the search does
                                _ => legal_here.first().map(|m| 1u64 << m.to).unwrap_or(0) | (1u64 << rng.below(64)),
                            };
                            g.set_mask(BitBoard::from_u64(m))
                        }
                        6 => g.remove(BitBoard::from_u64(rng.next_u64() & rng.next_u64())),
                        7 => {
                            // mostly a move that is really in the list (withdrawing it under a narrow mask
                            // is what leaves an entry empty under the mask), sometimes an arbitrary triple
                            let t = if !legal_here.is_empty() && rng.chance(3, 4) { *rng.pick(&legal_here) } else { random_triple(rng) };
                            d.u(g.remove_move(mv(t)) as u64);
                        }
                        _ => {
                            let h = g.clone();
                            d.u(h.count() as u64);
                        }
                    }
                }
                g.set_mask(!BitBoard::empty());
                let mut rest: Vec<Mv> = g.map(mv_back).collect();
                rest.sort();
                d.u(rest.len() as u64);
            }
            7 => {
                for _ in 0..8 {
                    let t = random_triple(rng);
                    d.u(b.is_legal(mv(t)) as u64);
                }
            }
            8 | 9 | 10 | 11 => {
                // mostly legal moves, sometimes arbitrary triples, through the three checked ops
                let legal: Vec<Mv> = b.legals().map(mv_back).collect();
                let t = if !legal.is_empty() && rng.chance(5, 6) {
                    let mut m = *rng.pick(&legal);
                    // sometimes the right squares with the wrong promotion field (must be refused)
                    if rng.chance(1, 5) {
                        m.promo = if m.promo.is_some() { None } else { Some(*rng.pick(&[Kind::Q, Kind::N, Kind::R, Kind::B])) };
                    }
                    m
                } else {
                    random_triple(rng)
                };
                let r = match rng.below(3) {
                    0 => b.move_new(mv(t)),
                    1 => {
                        let mut x = b;
                        if x.move_mut(mv(t)) { Some(x) } else { None }
                    }
                    _ => {
                        let mut out = Board::standard();
                        if b.move_into(mv(t), &mut out) { Some(out) } else { None }
                    }
                };
                d.u(r.is_some() as u64);
                if let Some(nb) = r {
                    b = nb;
                    d.u(b.zobrist());
                    d.u(tf.add(b) as u64);
                }
            }
            12 => {
                d.u(b.king_sq(Color::White).to_u8() as u64);
                d.u(b.king_sq(Color::Black).to_u8() as u64);
            }
            13 => {
                d.s(&format!("{:?}", b.state()));
                d.u(b.in_check() as u64);
                d.u(b.half_move_clock() as u64);
                d.u(b.full_move_clock() as u64);
            }
            14 => {
                d.u(b.zobrist());
                let mut h = std::collections::hash_map::DefaultHasher::new();
                b.hash(&mut h);
                let _ = h.finish();
                d.u((b == *board) as u64);
            }
            15 => {
                d.s(&b.to_string());
                d.s(&format!("{b:?}"));
                d.s(&format!("{b:#?}"));
                d.s(&format!("{:?}", b.raw()));
                d.s(&format!("{:x}", b.raw()));
                d.s(&format!("{:X}", b.raw()));
                d.s(&format!("{:b}", b.raw()));
                d.s(&format!("{:?} {:x} {:X} {:b}", b[Color::White], b[Color::Black], b.raw().all(), b[chess_bitboard::Piece::Pawn]));
            }
            16 => {
                // depth 0 included: "no plies" is a legitimate argument of a public function
                let depth = if b.legals().len() > 40 { rng.range(0, 1) as usize } else { rng.range(0, 2) as usize };
                d.u(b.perft_test(depth) as u64);
            }
            17 | 18 => {
                let k = rng.below(search_budget.max(1));
                let t = CountingTimeout::new(k);
                let mut e = Engine::default();
                e.positional = rng.chance(1, 3);
                let empty_tf = ThreeFold::new();
                let (m, s) = e.search(&b, if rng.chance(1, 2) { &tf } else { &empty_tf }, &t);
                let _ = chess_engine::verif::take_events();
                d.s(&format!("{:?}", m.map(|x| mv_back(x).uci())));
                d.s(&crate::engmon::score_str(s));
                d.u(e.max_depth as u64);
            }
            19 => {
                d.u(tf.get(&b) as u64);
                for _ in 0..rng.range(1, 4) {
                    d.u(tf.add(b) as u64);
                }
                let _ = format!("{tf:?}").len();
            }
            20 => {
                let s = pos(rng.below(64) as u8);
                d.s(&format!("{:?} {:?} {:?}", b.raw().get(s), b.raw().color_of(s), b.raw().piece_of(s)));
                d.u(b.turn() as u64);
            }
            21 => {
                // the writer's output back through the parser (any outcome is fine, no panic)
                match real::parse(&b.to_string()) {
                    Ok(nb) => d.u(nb.zobrist()),
                    Err(e) => d.s(&e),
                }
            }
            22 => {
                // rebuild the same placement through the builder with extreme clocks
                let mut bd = Board::builder();
                for s in 0..64u8 {
                    if let Some((cc, k)) = b.raw().get(pos(s)) {
                        let _ = bd.place(pos(s), cc, k);
                    }
                }
                bd.turn(b.turn());
                bd.half_move_clock(*rng.pick(&[0u16, 99, 100, 65534, 65535]));
                bd.full_move_clock(*rng.pick(&[0u16, 1, 65534, 65535]));
                if let Ok(nb) = bd.build() {
                    b = nb;
                    d.u(b.zobrist());
                }
            }
            _ => {
                // play a few legal moves in a row (clock arithmetic, repetition table)
                for _ in 0..rng.range(1, 6) {
                    let legal: Vec<_> = b.legals().collect();
                    if legal.is_empty() {
                        break;
                    }
                    let m = legal[rng.below(legal.len() as u64) as usize];
                    if let Some(nb) = b.move_new(m) {
                        b = nb;
                        d.u(tf.add(b) as u64);
                    }
                }
                d.u(b.zobrist());
            }
        }
    }
}

fn entries_estimate(p: &Position) -> u64 {
    let legal = p.legal_moves();
    let mut srcs: Vec<u8> = legal.iter().map(|m| m.from).collect();
    srcs.sort();
    srcs.dedup();
    let mut n = srcs.len() as u64;
    for s in srcs {
        let ep = legal.iter().any(|m| m.from == s && p.is_ep_capture(*m));
        let other = legal.iter().any(|m| m.from == s && !p.is_ep_capture(*m));
        if ep && other {
            n += 1;
        }
    }
    n
}

fn run_on(c: &mut Collector, rng: &mut Rng, label: &str, fen_or_bytes: &[u8], d: &mut Digest, n_ops: usize, budget: u64) {
    c.eval();
    c.count(&format!("positions:{label}"));
    let text = String::from_utf8_lossy(fen_or_bytes).to_string();
    c.journal(&format!("api-sequence {label} seedstate {} input {}", rng.clone().next_u64(), text.chars().take(200).collect::<String>()));
    c.distinct(refmodel::rng::fnv(fen_or_bytes) ^ rng.clone().next_u64());
    let rng_snapshot = rng.clone();
    let r = catch_unwind(AssertUnwindSafe(|| {
        let Ok(board) = chess_movegen::fen::parse_fen(fen_or_bytes) else { return None };
        let mut local = Digest(d.0);
        let mut r2 = rng_snapshot.clone();
        let mut stats: Vec<&'static str> = Vec::new();
        api_sequence(&mut stats, &mut r2, &board, &mut local, n_ops, budget);
        Some((local.0, r2, stats))
    }));
    match r {
        Ok(Some((dg, r2, stats))) => {
            d.0 = dg;
            *rng = r2;
            c.count("sequences-completed");
            for k in stats {
                c.count(k);
            }
        }
        Ok(None) => c.count("input-rejected-by-parser"),
        Err(p) => {
            let msg = p.downcast_ref::<String>().cloned().or(p.downcast_ref::<&str>().map(|s| s.to_string())).unwrap_or_else(|| "panic".into());
            let site = LAST_PANIC.with(|l| l.borrow().clone());
            c.violation(
                "safe-api-panicked",
                &site,
                format!("API sequence on \"{text}\" panicked: {msg} at {site}"),
                obj().set("input_hex", fen_or_bytes.iter().map(|b| format!("{b:02x}")).collect::<String>()).set("label", label).set("n_ops", n_ops).set("budget", budget).set("rng_probe", rng_snapshot.clone().next_u64()),
            );
            // advance the rng deterministically so later cases differ
            let _ = rng.next_u64();
        }
    }
}

thread_local! {
    pub static LAST_PANIC: std::cell::RefCell<String> = const { std::cell::RefCell::new(String::new()) };
}

pub fn c07(c: &mut Collector, seed: u64, shard: u64, nshards: u64, thorough: bool, small: bool, scale: f64) -> u64 {
    std::panic::set_hook(Box::new(|info| {
        let loc = info.location().map(|l| format!("{}:{}", l.file(), l.line())).unwrap_or_default();
        LAST_PANIC.with(|l| *l.borrow_mut() = loc);
    }));
    let mut d = Digest(0xcbf29ce484222325);
    // Before anything else touches the crates in this process: the FIRST uses of the lookup tables,
    // the opening book, the parser and the generator happen on two threads at once, with nothing
    // ordering them. The safe API has no interior mutability to synchronise, so this must be as
    // good as sequential use; a lazily filled cache behind a `static mut` is a data race that Miri
    // (these shards) reports whatever the schedule, and the answers of the two threads must agree.
    {
        c.eval();
        c.count("concurrent-first-use-cases");
        c.journal("concurrent first use of lookup tables, book, parser, generator and search on two threads");
        let work = |tid: u64| -> u64 {
            let mut h = tid.wrapping_mul(0); // same digest on both threads
            for (sq, occ) in [(27u8, 0x0008080846000800u64), (63, 0x6600808000008000), (0, 0x0000201008040200), (36, 0xffff00000000ffff)] {
                h = fnv_mix(h, chess_lookup::rook_moves(pos(sq), BitBoard::from_u64(occ)).to_u64());
                h = fnv_mix(h, chess_lookup::bishop_moves(pos(sq), BitBoard::from_u64(occ)).to_u64());
                h = fnv_mix(h, chess_lookup::knight_moves(pos(sq)).to_u64() ^ chess_lookup::king_moves(pos(sq)).to_u64());
                h = fnv_mix(h, chess_lookup::between(pos(sq), pos(63 - sq)).to_u64() ^ chess_lookup::line(pos(sq), pos(63 - sq)).to_u64());
            }
            // the bitboard iterator at and past its end, squares through every conversion
            for x in [0u64, 1, 1 << 63, 0x8000000000000001, 0xff, !0u64] {
                let bb = BitBoard::from_u64(x);
                let n = bb.count() as usize;
                for k in [0usize, 1, n.saturating_sub(1), n, n + 1, 64, 65, usize::MAX] {
                    let mut it = bb.iter();
                    h = fnv_mix(h, it.nth(k).map(|p| p.to_u8() as u64).unwrap_or(99));
                    h = fnv_mix(h, it.next().map(|p| p.to_u8() as u64).unwrap_or(99) ^ it.size_hint().0 as u64);
                }
                let mut m = bb;
                while m.any() {
                    h = fnv_mix(h, m.pop().map(|p| p.to_u8() as u64).unwrap_or(99));
                }
                h = fnv_mix(h, m.pop().map(|p| p.to_u8() as u64).unwrap_or(99));
            }
            for v in [0u8, 7, 8, 63, 64, 65, 127, 128, 255] {
                h = fnv_mix(h, chess_bitboard::Pos::from_u8(v).map(|p| p.to_u8() as u64).unwrap_or(99));
                h = fnv_mix(h, chess_bitboard::File::from_u8(v).map(|p| p as u64).unwrap_or(99) ^ chess_bitboard::Rank::from_u8(v).map(|p| p as u64).unwrap_or(99));
            }
            let root = chess_lookup::INITIAL_BOOOK_MOVES;
            h = fnv_mix(h, root.into_iter().count() as u64);
            h = fnv_mix(h, root.into_iter().size_hint().0 as u64);
            let first: Vec<_> = root.into_iter().collect();
            h = fnv_mix(h, first.len() as u64);
            if let Some(bm) = first.first() {
                h = fnv_mix(h, bm.children.into_iter().count() as u64);
                h = fnv_mix(h, bm.children.into_iter().last().map(|x| x.dest.to_u8() as u64).unwrap_or(99));
            }
            h = fnv_mix(h, chess_lookup::EMPTY_BOOK_MOVES.into_iter().count() as u64);
            if let Ok(b) = chess_movegen::fen::parse_fen(b"r3k2r/p1ppqpb1/bn2pnp1/3PN3/1p2P3/2N2Q1p/PPPBBPPP/R3K2R w KQkq - 0 1") {
                let mut g = b.legals();
                h = fnv_mix(h, g.len() as u64);
                if let Some(m) = g.next() {
                    if let Some(nb) = b.move_new(m) {
                        h = fnv_mix(h, nb.zobrist());
                        h = fnv_mix(h, nb.legals().count() as u64);
                    }
                }
                h = fnv_mix(h, b.zobrist() ^ (b.in_check() as u64));
                h = fnv_mix(h, refmodel::rng::fnv(b.to_string().as_bytes()));
            }
            let s = Board::standard();
            h = fnv_mix(h, s.zobrist());
            // a middlegame root and an endgame root (the evaluation has a separate endgame part)
            for (fen, k) in [("rnbqkbnr/pppppppp/8/8/8/8/PPPPPPPP/RNBQKBNR w KQkq - 0 1", 30u64), ("8/8/4k3/8/8/3PK3/8/8 w - - 0 1", 40), ("7k/8/8/8/8/8/8/K7 b - - 0 1", 25)] {
                if let Ok(b) = chess_movegen::fen::parse_fen(fen.as_bytes()) {
                    let mut e = Engine::default();
                    let t = CountingTimeout::new(k);
                    let (m, sc) = e.search(&b, &ThreeFold::new(), &t);
                    let _ = chess_engine::verif::take_events();
                    h = fnv_mix(h, m.map(|x| x.source.to_u8() as u64).unwrap_or(99));
                    h = fnv_mix(h, refmodel::rng::fnv(crate::engmon::score_str(sc).as_bytes()));
                }
            }
            h
        };
        let r = catch_unwind(AssertUnwindSafe(|| {
            let a = std::thread::spawn(move || work(0));
            let b = std::thread::spawn(move || work(1));
            (a.join(), b.join())
        }));
        match r {
            Ok((Ok(x), Ok(y))) => {
                d.u(x);
                if x != y {
                    c.violation("concurrent-first-use-answers-differ", "two-threads", format!("two threads making the same first calls got digests {x:#x} and {y:#x}"), obj());
                }
            }
            _ => {
                let site = LAST_PANIC.with(|l| l.borrow().clone());
                c.violation("safe-api-panicked", &site, format!("concurrent first use of the crates panicked at {site}"), obj());
            }
        }
    }
    // inputs that end exactly at the end of their allocation (a read past a truncated FEN is only
    // visible when nothing follows it), and every expiry instant of a tiny search (sentinel scores
    // meet each other only for particular instants)
    {
        c.eval();
        c.count("exact-allocation-and-expiry-sweep-cases");
        c.journal("FEN prefixes in exactly sized allocations; expiry sweep on bare kings");
        let r = catch_unwind(AssertUnwindSafe(|| {
            let mut h = 0u64;
            for fen in ["4k3/8/8/8/3pP3/8/8/4K3 b - e3 0 1", "r3k2r/8/8/8/8/8/8/R3K2R w KQkq - 12 34"] {
                let bytes = fen.as_bytes();
                let stride = if small { 1 } else { 1 };
                for n in (0..=bytes.len()).step_by(stride) {
                    let exact: Box<[u8]> = bytes[..n].to_vec().into_boxed_slice();
                    h = fnv_mix(h, chess_movegen::fen::parse_fen(&exact).is_ok() as u64);
                    if let Ok(text) = std::str::from_utf8(&exact) {
                        let boxed: Box<str> = text.into();
                        h = fnv_mix(h, boxed.parse::<Board>().is_ok() as u64);
                    }
                }
            }
            for fen in ["7k/8/8/8/8/8/8/K7 w - - 0 1", "7k/8/8/8/8/8/8/K7 b - - 0 1"] {
                if let Ok(b) = chess_movegen::fen::parse_fen(fen.as_bytes()) {
                    for k in 0..28u64 {
                        let mut e = Engine::default();
                        let t = CountingTimeout::new(k);
                        let (m, sc) = e.search(&b, &ThreeFold::new(), &t);
                        let _ = chess_engine::verif::take_events();
                        h = fnv_mix(h, m.map(|x| x.dest.to_u8() as u64).unwrap_or(99));
                        h = fnv_mix(h, refmodel::rng::fnv(crate::engmon::score_str(sc).as_bytes()));
                    }
                }
            }
            h
        }));
        match r {
            Ok(h) => d.u(h),
            Err(_) => {
                let site = LAST_PANIC.with(|l| l.borrow().clone());
                c.violation("safe-api-panicked", &site, format!("parsing FEN prefixes / sweeping expiry instants panicked at {site}"), obj());
            }
        }
    }
    let mut rng = Rng::new(mix3(seed, shard, 0xC07));
    let n_ops = if small { 6 } else { 40 };
    let budget = if small { 40 } else { 2500 };
    // 1. extremal and crafted families (positions reached by playing their moves)
    let mut crafted = Vec::new();
    workload::extremal_family(&mut crafted);
    if !small {
        let mut all = Vec::new();
        workload::castle_family(&mut all);
        workload::promo_family(&mut all);
        workload::ep_family(shard, nshards, 97, &mut all);
        for (i, cr) in all.into_iter().enumerate() {
            if i as u64 % (nshards * if thorough { 4 } else { 40 }) == shard {
                crafted.push(cr);
            }
        }
    }
    for cr in &crafted {
        let mut p = cr.pre.clone();
        for m in &cr.moves {
            p = p.apply(*m);
        }
        c.max("max:move-list-entries-estimated", entries_estimate(&p));
        run_on(c, &mut rng, cr.family, p.to_fen().as_bytes(), &mut d, n_ops, budget);
    }
    // 1b. every e.p. geometry searched two plies deep: an e.p. capture wrongly judged legal lets the
    //     opponent capture the king, and the next legals()/king_sq() pops an empty king set
    if !small {
        let mut eps = Vec::new();
        workload::ep_family(shard, nshards, if thorough { 4 } else { 16 }, &mut eps);
        let mut frozen_rng = Rng::new(0xF20E + shard);
        workload::ep_frozen_family(&mut frozen_rng, shard, nshards, 64, &mut eps);
        for cr in &eps {
            let mut p = cr.pre.clone();
            for m in &cr.moves {
                p = p.apply(*m);
            }
            let fen = p.to_fen();
            c.eval();
            c.count("ep-geometry-searches");
            c.journal(&format!("ep-geometry search {fen}"));
            let r = catch_unwind(AssertUnwindSafe(|| {
                let Ok(b) = real::parse(&fen) else { return None };
                let t = CountingTimeout::new(2500);
                let mut e = Engine::default();
                let r = e.search(&b, &ThreeFold::new(), &t);
                let _ = chess_engine::verif::take_events();
                Some(r)
            }));
            match r {
                Ok(Some((m, s))) => {
                    d.s(&format!("{:?}", m.map(|x| mv_back(x).uci())));
                    d.s(&crate::engmon::score_str(s));
                }
                Ok(None) => {}
                Err(_) => {
                    let site = LAST_PANIC.with(|l| l.borrow().clone());
                    c.violation("safe-api-panicked", &site, format!("search of {fen} with 2500 polls panicked at {site}"), obj().set("fen", fen.as_str()).set("expire_at_poll", 2500u64));
                }
            }
        }
    }
    // 1c. over-populated sides (17-24 mobile men of one colour): the parser / builder must reject
    //     them; if one is ever accepted, generating its moves overruns the fixed-capacity move list
    if !small && shard < 2 {
        for fen in [
            "6k1/pppppppp/8/nnnnnnnn/n6n/8/8/K7 b - - 0 1",
            "k7/8/8/N6N/NNNNNNNN/8/PPPPPPPP/6K1 w - - 0 1",
            "6k1/pppppppp/nnnnnnnn/8/8/8/8/K7 b - - 0 1",
            "k7/8/8/8/8/NNNNNNNN/PPPPPPPP/1K4NN w - - 0 1",
            "rnbqkbnr/ppppppp1/8/8/8/P7/PPPPPPPP/RNBQKBNR w KQkq - 0 1",
            "rnbqkbnr/pppppppp/p7/8/8/8/1PPPPPPP/RNBQKBNR b KQkq - 0 1",
            "7k/8/8/8/PPPPPPPP/PPPPPPPP/NNNNNNN1/K7 w - - 0 1",
            "k7/nnnnnnn1/pppppppp/pppppppp/8/8/8/7K b - - 0 1",
            "6k1/pppppppp/8/nnnnnnnn/nn5n/8/8/K7 b - - 0 1",
            "k7/8/8/N6N/NNNNNNNN/N7/PPPPPPPP/6K1 w - - 0 1",
        ] {
            c.count("overfull-side-inputs");
            run_on(c, &mut rng, "overfull-side", fen.as_bytes(), &mut d, n_ops, budget);
            // the same placement through the builder
            c.eval();
            c.journal(&format!("overfull via builder {fen}"));
            let r = catch_unwind(AssertUnwindSafe(|| {
                let p = Position::from_fen(fen).ok()?;
                let mut bd = Board::builder();
                for s in 0..64u8 {
                    if let Some((cc, k)) = p.board[s as usize] {
                        let _ = bd.place(pos(s), col(cc), kind(k));
                    }
                }
                bd.turn(col(p.turn));
                let b = bd.build().ok()?;
                Some((b.legals().count(), b.to_string()))
            }));
            match r {
                Ok(Some((n, _))) => d.u(n as u64),
                Ok(None) => {}
                Err(_) => {
                    let site = LAST_PANIC.with(|l| l.borrow().clone());
                    c.violation("safe-api-panicked", &site, format!("builder-assembled over-populated position {fen}: legals() panicked at {site}"), obj().set("fen", fen));
                }
            }
        }
    }
    // 2. corpus
    for (i, p) in workload::corpus().iter().enumerate() {
        if i as u64 % nshards == shard && (!small || i % 9 == 0) {
            c.max("max:move-list-entries-estimated", entries_estimate(p));
            run_on(c, &mut rng, "corpus", p.to_fen().as_bytes(), &mut d, n_ops, budget);
        }
    }
    // 3. random valid placements + walks, and the "accepted but not chess" stratum (pawns on the
    //    back ranks, implausible e.p. markers)
    let n = ((if small { 6.0 } else if thorough { 60_000.0 } else { 2500.0 }) * scale).max(2.0) as u64;
    for i in 0..n {
        let theme = THEMES[(i % THEMES.len() as u64) as usize];
        let odd = i % 4 == 3;
        let Some(mut p) = workload::random_placement(&mut rng, theme, odd) else { continue };
        for _ in 0..rng.range(0, 6) {
            let l = p.legal_moves();
            if l.is_empty() {
                break;
            }
            p = p.apply(*rng.pick(&l));
        }
        if p.half > 9999 || p.full > 9999 {
            continue;
        }
        c.max("max:move-list-entries-estimated", entries_estimate(&p));
        run_on(c, &mut rng, if odd { "random-accepted-not-chess" } else { "random-valid" }, p.to_fen().as_bytes(), &mut d, n_ops, budget);
        // 4. whatever the FEN fuzzer gets accepted
        if i % 2 == 0 {
            for _ in 0..3 {
                let m = fenmon::mutate(&mut rng, p.to_fen().as_bytes());
                run_on(c, &mut rng, "fen-mutation", &m, &mut d, n_ops / 2 + 1, budget / 4 + 1);
            }
        }
        let _ = Theme::Sparse;
    }
    // 4b. the positions the validator must REJECT (every acceptance condition violated on its critical
    // squares, and the seeded near-misses of corpus positions): on a correct tree none is accepted and
    // nothing happens; an unplayable position let through gets the full treatment
    if !small {
        let mut k = 0u64;
        for (_, q) in fenmon::critical_square_near_misses() {
            k += 1;
            if k % nshards == shard {
                run_on(c, &mut rng, "must-be-rejected", q.to_fen().as_bytes(), &mut d, n_ops, budget / 4 + 1);
            }
        }
        for (i, p) in workload::corpus().iter().enumerate() {
            if i as u64 % nshards != shard || p.chess_root_ok().is_err() {
                continue;
            }
            for (_, q) in fenmon::semantic_near_misses(&mut rng, p) {
                run_on(c, &mut rng, "must-be-rejected", q.to_fen().as_bytes(), &mut d, n_ops / 2 + 1, budget / 4 + 1);
            }
        }
    }
    // 5. fixed sentinels: CPW position 3 searched with a large budget (regression sentinel for the
    //    king-capture chain), clock extremes, long repetitions
    if shard == 0 && !small {
        for (fen, k) in [
            ("8/2p5/3p4/KP5r/1R3p1k/8/4P1P1/8 w - - 0 1", 200_000u64),
            ("8/4p1p1/8/1r3P1K/kp5R/3P4/2P5/8 b - - 0 1", 200_000),
            ("7k/5Q2/6K1/8/8/8/8/8 b - - 0 1", 70_000),
            ("k7/8/1K6/8/8/8/8/7R w - - 99 1", 140_000),
        ] {
            c.eval();
            c.count("sentinel-searches");
            c.journal(&format!("sentinel search {fen} {k}"));
            let r = catch_unwind(AssertUnwindSafe(|| {
                let b = real::parse(fen).unwrap();
                let t = CountingTimeout::new(k);
                let mut e = Engine::default();
                let r = e.search(&b, &ThreeFold::new(), &t);
                let _ = chess_engine::verif::take_events();
                r
            }));
            match r {
                Ok((m, s)) => {
                    d.s(&format!("{:?}", m.map(|x| mv_back(x).uci())));
                    d.s(&crate::engmon::score_str(s));
                }
                Err(_) => {
                    let site = LAST_PANIC.with(|l| l.borrow().clone());
                    c.violation("safe-api-panicked", &site, format!("search of {fen} with {k} polls panicked at {site}"), obj().set("fen", fen).set("expire_at_poll", k));
                }
            }
        }
        // clock extremes through the builder, then quiet moves
        for (h, f) in [(65534u16, 65534u16), (65535, 65535), (65535, 0), (0, 65535)] {
            c.eval();
            c.count("clock-extreme-cases");
            c.journal(&format!("clock extremes {h} {f}"));
            let r = catch_unwind(AssertUnwindSafe(|| {
                let mut bd = Board::builder();
                let _ = bd.place(pos(4), col(Col::W), kind(Kind::K));
                let _ = bd.place(pos(60), col(Col::B), kind(Kind::K));
                let _ = bd.place(pos(0), col(Col::W), kind(Kind::R));
                bd.half_move_clock(h).full_move_clock(f);
                let mut b = bd.build().unwrap();
                let mut out = Vec::new();
                for _ in 0..6 {
                    let m = b.legals().next().unwrap();
                    b = b.move_new(m).unwrap();
                    out.push((b.half_move_clock(), b.full_move_clock(), b.to_string(), format!("{:?}", b.state())));
                }
                out
            }));
            match r {
                Ok(v) => {
                    for (a, b2, s, st) in v {
                        d.u(a as u64);
                        d.u(b2 as u64);
                        d.s(&s);
                        d.s(&st);
                    }
                }
                Err(_) => {
                    let site = LAST_PANIC.with(|l| l.borrow().clone());
                    c.violation("safe-api-panicked", &site, format!("builder clocks ({h},{f}) then quiet moves panicked at {site}"), obj().set("half", h as u64).set("full", f as u64));
                }
            }
        }
        // 300 occurrences of one position
        c.eval();
        c.count("long-repetition-cases");
        let r = catch_unwind(AssertUnwindSafe(|| {
            let mut tf = ThreeFold::new();
            let b = Board::standard();
            let mut flags = 0u32;
            for _ in 0..300 {
                flags += tf.add(b) as u32;
            }
            // and a search on top of the saturated table
            let t = CountingTimeout::new(300);
            let mut e = Engine::default();
            let _ = e.search(&b, &tf, &t);
            let _ = chess_engine::verif::take_events();
            (flags, tf.get(&b))
        }));
        match r {
            Ok((flags, n)) => {
                d.u(flags as u64);
                d.u(n as u64);
                if flags != 1 {
                    c.violation("threefold-flag-raised-again", "ThreeFold::add", format!("300 adds of one position raised the flag {flags} times"), obj());
                }
            }
            Err(_) => {
                let site = LAST_PANIC.with(|l| l.borrow().clone());
                c.violation("safe-api-panicked", &site, format!("300 ThreeFold::add of one position panicked at {site}"), obj());
            }
        }
    }
    // the checked move operations are the gate in front of `move_unchecked`, whose precondition is
    // legality: sweep EVERY (source, destination[, promotion]) through them on positions full of
    // checks (double checks above all) and compare with the rules; a wrongly admitted move is followed
    // for two plies so that the trapping builds show what it leads to
    {
        let mut fam = Vec::new();
        let mut frng = Rng::new(mix3(seed, shard, 0x6A7E));
        if small {
            // under Miri the generator itself would be interpreted: two fixed double checks instead
            for fen in ["4r1k1/8/8/8/8/5n2/6P1/4K3 w - - 0 1", "3qkb2/6p1/5N2/8/8/8/8/4R1K1 b - - 0 1"] {
                if let Ok(p) = Position::from_fen(fen) {
                    fam.push(workload::Crafted { family: "double-check", pre: p, moves: vec![] });
                }
            }
        } else {
            workload::double_check_family(&mut frng, if thorough { 400 } else { 60 }, &mut fam);
            workload::evasion_family(&mut frng, if thorough { 200 } else { 30 }, &mut fam);
        }
        for cr in &fam {
            let p = &cr.pre;
            let Ok(board) = real::parse(&p.to_fen()) else { continue };
            c.eval();
            c.count("gate-sweep-positions");
            if p.checkers().len() == 2 {
                c.count("gate-sweep-double-checks");
            }
            c.journal(&format!("gate sweep {}", p.to_fen()));
            let legal: std::collections::HashSet<Mv> = p.legal_moves().into_iter().collect();
            let mut admitted = 0u64;
            let step = if small { 7 } else { 1 };
            for from in (0..64u8).step_by(step) {
                for to in 0..64u8 {
                    let promos: &[Option<Kind>] = if matches!(p.board[from as usize], Some((_, Kind::P))) && (to / 8 == 0 || to / 8 == 7) { &[None, Some(Kind::Q), Some(Kind::N)] } else { &[None] };
                    for pr in promos {
                        let m = Mv { from, to, promo: *pr };
                        let r = catch_unwind(AssertUnwindSafe(|| board.move_new(mv(m))));
                        match r {
                            Err(_) => {
                                let site = LAST_PANIC.with(|l| l.borrow().clone());
                                c.violation("safe-api-panicked", &site, format!("move_new({}) on {} panicked at {site}", m.uci(), p.to_fen()), obj().set("fen", p.to_fen()).set("move", m.uci()));
                            }
                            Ok(Some(nb)) => {
                                admitted += 1;
                                if !legal.contains(&m) {
                                    c.violation(
                                        "unchecked-precondition-breached",
                                        if p.checkers().len() == 2 { "illegal-move-admitted-in-double-check" } else { "illegal-move-admitted" },
                                        format!("{}: move_new admits {} which is not legal ({} checker(s)); it is passed on to move_unchecked", p.to_fen(), m.uci(), p.checkers().len()),
                                        obj().set("fen", p.to_fen()).set("move", m.uci()),
                                    );
                                    // what it leads to (aborts in the trapping builds, which is then reported as a crash)
                                    let _ = catch_unwind(AssertUnwindSafe(|| {
                                        let replies: Vec<_> = nb.legals().collect();
                                        for r1 in replies {
                                            if let Some(nb2) = nb.move_new(r1) {
                                                let _ = nb2.legals().count();
                                                let _ = nb2.state();
                                            }
                                        }
                                    }));
                                }
                            }
                            Ok(None) => {
                                if legal.contains(&m) {
                                    c.count("gate-sweep:legal-move-refused (a C01/C02 matter, not judged here)");
                                }
                            }
                        }
                    }
                }
            }
            c.add("gate-sweep-probes", (64 / step as u64) * 64);
            d.u(admitted);
        }
    }
    // printing: every text rendering the crates offer, on boundary values
    {
        c.eval();
        c.count("printing-cases");
        let r = catch_unwind(AssertUnwindSafe(|| {
            let mut n = 0usize;
            // (under Miri, `small`, a sample of the 20480 moves)
            for from in (0..64u8).step_by(if small { 13 } else { 1 }) {
                for to in (0..64u8).step_by(if small { 11 } else { 1 }) {
                    for pr in [None, Some(Kind::N), Some(Kind::B), Some(Kind::R), Some(Kind::Q)] {
                        let m = mv(Mv { from, to, promo: pr });
                        n += format!("{m}").len() + format!("{m:?}").len();
                    }
                }
            }
            use chess_engine::Score;
            for sc in [Score::Min, Score::Max, Score::Raw(0), Score::Raw(1), Score::Raw(-1), Score::Raw(i32::MIN), Score::Raw(i32::MAX), Score::WhiteMateIn(0), Score::WhiteMateIn(1), Score::WhiteMateIn(u16::MAX), Score::BlackMateIn(0), Score::BlackMateIn(1), Score::BlackMateIn(u16::MAX)] {
                n += format!("{sc:?}").len() + format!("{sc:+?}").len() + format!("{sc:#?}").len();
            }
            n += format!("{:?} {:?}", chess_lookup::INITIAL_BOOOK_MOVES, chess_lookup::EMPTY_BOOK_MOVES).len();
            for bm in chess_lookup::INITIAL_BOOOK_MOVES {
                n += format!("{bm:?}").len();
            }
            let b = Board::standard();
            n += format!("{b} {b:?} {b:#?}").len();
            let raw = b.raw();
            n += format!("{raw:?} {raw:#?} {raw:x} {raw:X} {raw:b} {raw:#x}").len();
            n
        }));
        match r {
            Ok(n) => d.u((n > 0) as u64),
            Err(_) => {
                let site = LAST_PANIC.with(|l| l.borrow().clone());
                c.violation("safe-api-panicked", &site, format!("a Display / Debug / hex rendering panicked at {site}"), obj());
            }
        }
    }
    // raw boards used on their own, in the well-formed way (set on empty squares, remove / move what
    // is there): they must stay a partition that agrees with a plain array
    {
        use chess_movegen::raw::RawBoard;
        let rounds = if small { 3 } else { 400 };
        for round in 0..rounds {
            c.eval();
            c.count("raw-board-histories");
            let r = catch_unwind(AssertUnwindSafe(|| -> Result<u64, String> {
                let mut real = if round % 3 == 0 { RawBoard::standard() } else { RawBoard::empty() };
                let mut model: [Option<(Col, Kind)>; 64] = [None; 64];
                if round % 3 == 0 {
                    model = Position::standard().board;
                }
                let mut h = 0u64;
                for step in 0..(if small { 25 } else { 60 }) {
                    let s = rng.below(64) as u8;
                    let t = rng.below(64) as u8;
                    let cl = if rng.chance(1, 2) { Col::W } else { Col::B };
                    let kd = *rng.pick(&KINDS);
                    let what;
                    match rng.below(4) {
                        0 | 1 => {
                            let res = real.set(col(cl), kind(kd), pos(s));
                            what = format!("set({cl:?},{kd:?},{s})");
                            if res.is_ok() != model[s as usize].is_none() {
                                return Err(format!("step {step} {what}: returned {:?} but the square was {:?}", res.is_ok(), model[s as usize]));
                            }
                            if res.is_ok() {
                                model[s as usize] = Some((cl, kd));
                            }
                        }
                        2 => match model[s as usize] {
                            Some((mc, mk)) => {
                                real.remove(col(mc), kind(mk), pos(s));
                                model[s as usize] = None;
                                what = format!("remove({s})");
                            }
                            None => continue,
                        },
                        _ => match (model[s as usize], model[t as usize]) {
                            (Some((mc, mk)), None) => {
                                real.move_piece(col(mc), kind(mk), pos(s), pos(t));
                                model[t as usize] = model[s as usize].take();
                                what = format!("move_piece({s},{t})");
                            }
                            _ => continue,
                        },
                    }
                    let mut all = 0u64;
                    for q in 0..64u8 {
                        let got = real.get(pos(q)).map(|(a, b)| (real::col_back(a), real::kind_back(b)));
                        let piece = real.piece_of(pos(q)).map(real::kind_back);
                        let colour = real.color_of(pos(q)).map(real::col_back);
                        if got != model[q as usize] || piece != model[q as usize].map(|x| x.1) || colour != model[q as usize].map(|x| x.0) {
                            return Err(format!("step {step} after {what}: square {q} reads {got:?} / {piece:?} / {colour:?}, the array has {:?}", model[q as usize]));
                        }
                        if model[q as usize].is_some() {
                            all |= 1u64 << q;
                        }
                    }
                    let by_colour = real[Color::White].to_u64() | real[Color::Black].to_u64();
                    let by_piece = KINDS.iter().fold(0u64, |a, k| a | real[kind(*k)].to_u64());
                    if real.all().to_u64() != all || by_colour != all || by_piece != all {
                        return Err(format!("step {step} after {what}: all() = {:#x}, colour sets {by_colour:#x}, piece sets {by_piece:#x}, the array has {all:#x}", real.all().to_u64()));
                    }
                    h = fnv_mix(h, all);
                }
                Ok(h)
            }));
            match r {
                Ok(Ok(h)) => d.u(h),
                Ok(Err(e)) => c.violation("raw-board-differs-from-array", "history", e, obj().set("round", round as u64)),
                Err(_) => {
                    let site = LAST_PANIC.with(|l| l.borrow().clone());
                    c.violation("safe-api-panicked", &site, format!("a well-formed raw-board history panicked at {site}"), obj().set("round", round as u64));
                }
            }
        }
    }
    c.sample(obj().set("position", "R6R/3Q4/1Q4Q1/4Q3/2Q4Q/Q4Q2/pp1Q4/kBNN1KB1 w - - 0 1").set("ops", n_ops).set("note", "random safe-API call sequence; see counters api:*"));
    d.0
}

pub fn replay(c: &mut Collector, r: &J) -> i32 {
    std::panic::set_hook(Box::new(|info| {
        let loc = info.location().map(|l| format!("{}:{}", l.file(), l.line())).unwrap_or_default();
        eprintln!("{info}");
        LAST_PANIC.with(|l| *l.borrow_mut() = loc);
    }));
    if let Some(h) = r.get("input_hex").and_then(|x| x.as_str()) {
        let bytes = fenmon::unhex(h);
        let n_ops = r.get("n_ops").and_then(|x| x.as_u64()).unwrap_or(40) as usize;
        let budget = r.get("budget").and_then(|x| x.as_u64()).unwrap_or(2500);
        // the exact rng state is not recorded; many seeds are tried on the recorded input
        let mut d = Digest(1);
        for s in 0..400u64 {
            let mut rng = Rng::new(s);
            run_on(c, &mut rng, "replay", &bytes, &mut d, n_ops, budget);
            if c.violation_total > 0 {
                break;
            }
        }
    } else if let Some(fen) = r.get("fen").and_then(|x| x.as_str()) {
        let k = r.get("expire_at_poll").and_then(|x| x.as_u64()).unwrap_or(1000);
        let res = catch_unwind(AssertUnwindSafe(|| {
            let b = real::parse(fen).unwrap();
            let t = CountingTimeout::new(k);
            Engine::default().search(&b, &ThreeFold::new(), &t)
        }));
        if res.is_err() {
            c.violation("safe-api-panicked", "replay", format!("search of {fen} with {k} polls panicked"), J::Null);
        }
    }
    for v in &c.violations {
        println!("VIOLATION property=C07\n  {}/{}: {}", v.kind, v.signature, v.detail);
    }
    println!("replay: {} violation(s)", c.violation_total);
    if c.violation_total > 0 { 1 } else { 0 }
}
