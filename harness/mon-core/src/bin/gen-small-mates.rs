//! Offline generator (developer tool, not part of any check): enumerates positions in which the
//! side to move mates in one BY A CAPTURE after which only the two kings and exactly two minor
//! pieces remain (the boundary of the engine's insufficient-material rule).  Output: FEN list for
//! refmodel/src/small_material_mates.txt; every entry is re-validated by the model at run time.
use refmodel::tags::mating_moves;
use refmodel::*;

fn dist(a: u8, b: u8) -> i32 {
    (file_of(a) - file_of(b)).abs().max((rank_of(a) - rank_of(b)).abs())
}

fn main() {
    let mut found: Vec<(String, String)> = Vec::new();
    for bk in [56u8, 57, 58, 59] {
        let near3: Vec<u8> = (0..64u8).filter(|s| dist(*s, bk) <= 3 && *s != bk).collect();
        let near2: Vec<u8> = (0..64u8).filter(|s| dist(*s, bk) <= 2 && *s != bk).collect();
        for wk in (0..64u8).filter(|s| dist(*s, bk) == 2) {
            for (i, &a) in near3.iter().enumerate() {
                for &b in &near3[i + 1..] {
                    for (ka, kb, ca, cb) in [
                        (Kind::N, Kind::N, Col::W, Col::W),
                        (Kind::N, Kind::B, Col::W, Col::W),
                        (Kind::B, Kind::N, Col::W, Col::W),
                        (Kind::B, Kind::B, Col::W, Col::W),
                        (Kind::N, Kind::N, Col::W, Col::B),
                        (Kind::N, Kind::B, Col::W, Col::B),
                        (Kind::B, Kind::N, Col::W, Col::B),
                        (Kind::N, Kind::N, Col::B, Col::W),
                        (Kind::B, Kind::N, Col::B, Col::W),
                    ] {
                        if a == wk || b == wk {
                            continue;
                        }
                        for &x in &near2 {
                            if x == a || x == b || x == wk {
                                continue;
                            }
                            for xk in [Kind::R, Kind::N, Kind::B, Kind::Q, Kind::P] {
                                if xk == Kind::P && (rank_of(x) == 0 || rank_of(x) == 7) {
                                    continue;
                                }
                                let mut p = Position::empty();
                                p.turn = Col::W;
                                p.board[bk as usize] = Some((Col::B, Kind::K));
                                p.board[wk as usize] = Some((Col::W, Kind::K));
                                p.board[a as usize] = Some((ca, ka));
                                p.board[b as usize] = Some((cb, kb));
                                p.board[x as usize] = Some((Col::B, xk));
                                if p.chess_root_ok().is_err() {
                                    continue;
                                }
                                let mates = mating_moves(&p);
                                for m in mates {
                                    if m.to == x {
                                        let class = format!("{ka:?}{ca:?}{kb:?}{cb:?}-x{xk:?}-by{:?}", p.board[m.from as usize].unwrap().1);
                                        found.push((class, p.to_fen()));
                                    }
                                }
                            }
                        }
                    }
                }
            }
        }
    }
    // keep a diverse subset: up to 6 per class
    found.sort();
    let mut out: Vec<String> = Vec::new();
    let mut last = String::new();
    let mut n = 0;
    for (class, fen) in &found {
        if *class != last {
            last = class.clone();
            n = 0;
        }
        if n < 6 {
            out.push(fen.clone());
            n += 1;
        }
    }
    eprintln!("{} candidates, {} kept", found.len(), out.len());
    for f in out {
        println!("{f}");
    }
}
