//! C11 (search vs. time-limit expiry), C12 (mate in one), C13 (colour symmetry).
//!
//! The "instant at which the limit expires" is a logical schedule: a counting `Timeout` that
//! first reports expiry at its k-th poll (and stays expired, like a real deadline).  Which
//! passes completed is read from the `verif-hooks` event log of chess-engine.

use crate::real::{self, mv_back};
use refmodel::report::Collector;
use refmodel::workload::{self, Theme};
use chess_engine::verif::{self, Event, Stage};
use chess_engine::{Engine, Score, ThreeFold, Timeout};
use chess_movegen::Board;
use refmodel::json::{obj, J};
use refmodel::rng::{fnv, mix3, Rng};
use refmodel::tags::mating_moves;
use refmodel::*;
use std::cell::Cell;
use std::panic::{catch_unwind, AssertUnwindSafe};

pub struct CountingTimeout {
    pub polls: Cell<u64>,
    pub expire_at: u64,
    pub first_true: Cell<Option<u64>>,
    pub polls_after: Cell<u64>,
    pub phase: Cell<Option<(Option<Event>, bool)>>,
    last_event_count: Cell<usize>,
    polls_since_event: Cell<u64>,
    pub runaway_cap: u64,
    /// when present, expiry is decided by the engine's own wall-clock limit (the type the CLI, the bot
    /// runner and the wasm front end pass to the search); `expire_at` then only caps the run
    wall: Option<chess_engine::DurationTimeout>,
}

pub struct Runaway;

impl CountingTimeout {
    pub fn new(expire_at: u64) -> Self {
        CountingTimeout {
            polls: Cell::new(0),
            expire_at,
            first_true: Cell::new(None),
            polls_after: Cell::new(0),
            phase: Cell::new(None),
            last_event_count: Cell::new(0),
            polls_since_event: Cell::new(0),
            runaway_cap: 5000,
            wall: None,
        }
    }
    pub fn with_wall_clock(limit: std::time::Duration, cap_polls: u64) -> Self {
        let mut t = CountingTimeout::new(cap_polls);
        t.wall = Some(chess_engine::DurationTimeout::new(limit));
        t
    }
}

impl Timeout for CountingTimeout {
    fn is_complete(&self) -> bool {
        let k = self.polls.get();
        self.polls.set(k + 1);
        let ec = verif::event_count();
        if ec != self.last_event_count.get() {
            self.last_event_count.set(ec);
            self.polls_since_event.set(0);
        } else {
            self.polls_since_event.set(self.polls_since_event.get() + 1);
        }
        let expired = k >= self.expire_at || self.first_true.get().is_some() || self.wall.as_ref().map(|w| w.is_complete()).unwrap_or(false);
        if expired {
            if self.first_true.get().is_none() {
                self.first_true.set(Some(k));
                self.phase.set(Some((verif::last_event(), self.polls_since_event.get() > 0)));
            } else {
                let a = self.polls_after.get() + 1;
                self.polls_after.set(a);
                if a > self.runaway_cap {
                    // bounded progress violated: abort the search by unwinding
                    std::panic::panic_any(Runaway);
                }
            }
            true
        } else {
            false
        }
    }
}

pub struct Outcome {
    pub result: Result<(Option<Mv>, Score), String>,
    pub events: Vec<Event>,
    pub polls: u64,
    pub first_true: Option<u64>,
    pub polls_after: u64,
    pub phase: Option<(Option<Event>, bool)>,
    pub runaway: bool,
}

impl Outcome {
    pub fn commits(&self) -> Vec<(u16, Score, Option<Mv>)> {
        self.events
            .iter()
            .filter_map(|e| match e {
                Event::PassCommit { depth, score, best_move } => Some((*depth, *score, best_move.map(mv_back))),
                _ => None,
            })
            .collect()
    }
    pub fn deepest_started(&self) -> u16 {
        self.events
            .iter()
            .filter_map(|e| match e {
                Event::PassStart { depth } => Some(*depth),
                _ => None,
            })
            .max()
            .unwrap_or(0)
    }
}

/// A `tracing` subscriber that enables everything and formats every field of every span and
/// event into a byte count: with it installed the search executes all of its logging code
/// (Display of boards and moves, Debug of scores, the TRACE-only `eprintln!`s).
pub struct Sink;
pub static SINK_BYTES: std::sync::atomic::AtomicU64 = std::sync::atomic::AtomicU64::new(0);
struct SinkVisit;
impl tracing::field::Visit for SinkVisit {
    fn record_debug(&mut self, field: &tracing::field::Field, value: &dyn std::fmt::Debug) {
        let text = format!("{}={:?}", field.name(), value);
        SINK_BYTES.fetch_add(text.len() as u64, std::sync::atomic::Ordering::Relaxed);
    }
}
impl tracing::Subscriber for Sink {
    fn enabled(&self, _: &tracing::Metadata<'_>) -> bool {
        true
    }
    fn new_span(&self, attrs: &tracing::span::Attributes<'_>) -> tracing::span::Id {
        attrs.record(&mut SinkVisit);
        tracing::span::Id::from_u64(1)
    }
    fn record(&self, _: &tracing::span::Id, values: &tracing::span::Record<'_>) {
        values.record(&mut SinkVisit);
    }
    fn record_follows_from(&self, _: &tracing::span::Id, _: &tracing::span::Id) {}
    fn event(&self, event: &tracing::Event<'_>) {
        event.record(&mut SinkVisit);
    }
    fn enter(&self, _: &tracing::span::Id) {}
    fn exit(&self, _: &tracing::span::Id) {}
}

thread_local! {
    /// when set, `run_search` runs the search with the `Sink` subscriber installed
    pub static TRACED: Cell<bool> = const { Cell::new(false) };
    /// when set (microseconds), `run_search` lets the engine's own DurationTimeout decide the expiry
    pub static WALL_US: Cell<Option<u64>> = const { Cell::new(None) };
}

thread_local! {
    /// when present, `run_search` uses (and keeps) this engine instead of a fresh one: whatever an
    /// engine carries from one search to the next (statistics today; tables, hints, caches in a
    /// future version) then takes part in the following searches, as in a played game
    static PERSISTENT: std::cell::RefCell<[Option<Engine>; 2]> = const { std::cell::RefCell::new([None, None]) };
    /// which of the two persistent engines the next search uses (C13 keeps one per colour view)
    static SLOT: Cell<usize> = const { Cell::new(0) };
    static REUSE_ON: Cell<bool> = const { Cell::new(false) };
    /// the searches made so far with the persistent engine (fen, expiry poll, positional), for replay files
    static REUSE_LOG: std::cell::RefCell<Vec<(String, u64, bool, usize)>> = const { std::cell::RefCell::new(Vec::new()) };
}

/// Run `f` with one engine shared by all the searches it makes.
pub fn with_persistent_engine<R>(f: impl FnOnce() -> R) -> R {
    PERSISTENT.with(|p| *p.borrow_mut() = [Some(Engine::default()), Some(Engine::default())]);
    REUSE_ON.with(|f| f.set(true));
    SLOT.with(|x| x.set(0));
    REUSE_LOG.with(|l| l.borrow_mut().clear());
    let r = f();
    PERSISTENT.with(|p| *p.borrow_mut() = [None, None]);
    REUSE_ON.with(|f| f.set(false));
    SLOT.with(|x| x.set(0));
    REUSE_LOG.with(|l| l.borrow_mut().clear());
    r
}

/// Leaf evaluations per poll of the time limit, measured once per process on reference positions.
/// The monitors' budgets are counted in polls; an engine that polls much more rarely than the one
/// these budgets were sized for (e.g. once per 64 nodes) would make every large budget cost
/// proportionally more work. The measure is logical (no clock), so it is deterministic.
pub fn evals_per_poll() -> f64 {
    static R: std::sync::OnceLock<f64> = std::sync::OnceLock::new();
    *R.get_or_init(|| {
        let mut evals = 0u64;
        let mut polls = 0u64;
        for fen in ["r1bq1rk1/pp2bppp/2n1pn2/2pp4/3P1B2/2PBPN2/PP1N1PPP/R2QK2R w KQ - 0 8", "8/2p5/3p4/KP5r/1R3p1k/8/4P1P1/8 w - - 0 1", "r3k2r/p1ppqpb1/bn2pnp1/3PN3/1p2P3/2N2Q1p/PPPBBPPP/R3K2R w KQkq - 0 1"] {
            let Ok(b) = real::parse(fen) else { continue };
            let t = CountingTimeout::new(3000);
            let mut e = Engine::default();
            let _ = catch_unwind(AssertUnwindSafe(|| e.search(&b, &ThreeFold::new(), &t)));
            let _ = verif::take_events();
            evals += e.moves_evaluated;
            polls += t.polls.get().max(1);
        }
        evals as f64 / polls.max(1) as f64
    })
}

/// Work factor relative to the engine the budgets were sized for (about 0.5 leaf evaluations per poll).
pub fn budget_scale() -> f64 {
    let r = evals_per_poll() / 0.5;
    if r > 4.0 { r } else { 1.0 }
}

pub fn run_search(board: &Board, tf: &ThreeFold, expire_at: u64, positional: bool) -> Outcome {
    let _ = verif::take_events();
    // large budgets only bound the work; they shrink when one poll stands for many more nodes
    let expire_at = if expire_at >= 20_000 && budget_scale() > 1.0 { ((expire_at as f64 / budget_scale()) as u64).max(2_000) } else { expire_at };
    let t = match WALL_US.with(|w| w.get()) {
        Some(us) => CountingTimeout::with_wall_clock(std::time::Duration::from_micros(us), expire_at),
        None => CountingTimeout::new(expire_at),
    };
    let slot = SLOT.with(|x| x.get());
    let reuse = REUSE_ON.with(|f| f.get());
    let kept = if reuse { PERSISTENT.with(|p| p.borrow_mut()[slot].take()) } else { None };
    if reuse {
        REUSE_LOG.with(|l| l.borrow_mut().push((board.to_string(), expire_at, positional, slot)));
    }
    let mut engine = kept.unwrap_or_default();
    engine.positional = positional;
    let r = if TRACED.with(|f| f.get()) {
        catch_unwind(AssertUnwindSafe(|| tracing::subscriber::with_default(Sink, || engine.search(board, tf, &t))))
    } else {
        catch_unwind(AssertUnwindSafe(|| engine.search(board, tf, &t)))
    };
    let events = verif::take_events();
    if reuse {
        PERSISTENT.with(|p| p.borrow_mut()[slot] = Some(engine));
    }
    let mut runaway = false;
    let result = match r {
        Ok((m, s)) => Ok((m.map(mv_back), s)),
        Err(p) => {
            if p.downcast_ref::<Runaway>().is_some() {
                runaway = true;
                Err("runaway".to_string())
            } else {
                Err(p.downcast_ref::<String>().cloned().or(p.downcast_ref::<&str>().map(|s| s.to_string())).unwrap_or_else(|| "panic".into()))
            }
        }
    };
    Outcome {
        result,
        events,
        polls: t.polls.get(),
        first_true: t.first_true.get(),
        polls_after: t.polls_after.get(),
        phase: t.phase.get(),
        runaway,
    }
}

fn phase_name(ph: &Option<(Option<Event>, bool)>) -> String {
    match ph {
        None => "never-expired".into(),
        Some((ev, inside)) => {
            let base = match ev {
                None => "before-first-event".to_string(),
                Some(Event::PassStart { depth }) => format!("pass{}:start", (*depth).min(3)),
                Some(Event::Stage { depth, stage }) => format!(
                    "pass{}:{}",
                    (*depth).min(3),
                    match stage {
                        Stage::PrevBest => "prev-best",
                        Stage::Captures => "captures",
                        Stage::Quiets => "quiets",
                    }
                ),
                Some(Event::PassCommit { depth, .. }) => format!("pass{}:committed", (*depth).min(3)),
            };
            format!("{base}:{}", if *inside { "in-recursion" } else { "root-level" })
        }
    }
}

pub fn score_str(s: Score) -> String {
    match s {
        Score::Min => "Min".into(),
        Score::Max => "Max".into(),
        Score::Raw(x) => format!("Raw({x})"),
        Score::WhiteMateIn(x) => format!("WhiteMateIn({x})"),
        Score::BlackMateIn(x) => format!("BlackMateIn({x})"),
    }
}

pub fn negate(s: Score) -> Score {
    match s {
        Score::Min => Score::Max,
        Score::Max => Score::Min,
        Score::Raw(x) => Score::Raw(x.wrapping_neg()),
        Score::WhiteMateIn(x) => Score::BlackMateIn(x),
        Score::BlackMateIn(x) => Score::WhiteMateIn(x),
    }
}

/// Positions for the engine monitors: (label, model position, history leading to it).
pub struct EnginePos {
    pub label: &'static str,
    pub pos: Position,
    pub history: Vec<Position>,
}

pub fn engine_positions(seed: u64, shard: u64, nshards: u64, n_random: u64, want_mates: bool) -> Vec<EnginePos> {
    let mut out = Vec::new();
    let corpus = workload::corpus();
    for (i, p) in corpus.iter().enumerate() {
        if i as u64 % nshards == shard && p.chess_root_ok().is_ok() {
            out.push(EnginePos { label: "corpus", pos: p.clone(), history: vec![] });
        }
    }
    // extremal move lists (18 entries: 16 mobile men + two e.p. capturers) and the position one ply
    // before, so that the extremal list also arises inside the tree
    {
        let mut ex = Vec::new();
        workload::extremal_family(&mut ex);
        for (i, cr) in ex.into_iter().enumerate() {
            if i as u64 % nshards.min(4) != shard % nshards.min(4) {
                continue;
            }
            let mut p = cr.pre.clone();
            if p.chess_root_ok().is_ok() && !cr.moves.is_empty() {
                out.push(EnginePos { label: "extremal-before-double-step", pos: p.clone(), history: vec![] });
            }
            for m in &cr.moves {
                p = p.apply(*m);
            }
            if p.chess_root_ok().is_ok() {
                out.push(EnginePos { label: "extremal", pos: p, history: vec![] });
            }
        }
    }
    // hopeless positions: every legal move allows an immediate mate / stalemate
    {
        let mut rng = Rng::new(mix3(seed, shard, 0x40BE));
        for (label, p) in workload::hopeless_positions(&mut rng, (n_random as usize) * 400, (n_random as usize / 4).max(6)) {
            out.push(EnginePos { label, pos: p, history: vec![] });
        }
    }
    let themes = [Theme::Sparse, Theme::Sparse, Theme::MatingNet, Theme::MatingNet, Theme::Promo, Theme::PawnRace, Theme::Mid, Theme::Castle, Theme::Dense];
    for i in 0..n_random {
        let mut rng = Rng::new(mix3(seed, shard, 0xE9610000 + i));
        let theme = themes[(i % themes.len() as u64) as usize];
        let Some(root) = workload::random_placement(&mut rng, theme, false) else { continue };
        // short walk so that the position has a history (used for the ThreeFold sub-stratum)
        let plies = rng.range(0, 10) as usize;
        let mut p = root.clone();
        let mut hist = vec![p.clone()];
        let mut prev: [Option<Mv>; 2] = [None, None];
        for _ in 0..plies {
            let l = p.legal_moves();
            if l.is_empty() {
                break;
            }
            let m = workload::choose_move(&mut rng, &p, &l, prev[p.turn.idx()], 20);
            prev[p.turn.idx()] = Some(m);
            p = p.apply(m);
            hist.push(p.clone());
        }
        if want_mates && mating_moves(&p).is_empty() && i % 3 != 0 {
            // search a few more plies for a position with a mate in one
            let mut q = p.clone();
            for _ in 0..6 {
                let l = q.legal_moves();
                if l.is_empty() {
                    break;
                }
                q = q.apply(*rng.pick(&l));
                hist.push(q.clone());
                if !mating_moves(&q).is_empty() {
                    p = q.clone();
                    break;
                }
            }
        }
        let label = match theme {
            Theme::Sparse => "random-sparse",
            Theme::MatingNet => "random-mating-net",
            Theme::Promo => "random-promo",
            Theme::PawnRace => "random-pawn-race",
            Theme::Mid => "random-mid",
            Theme::Castle => "random-castle",
            Theme::Dense => "random-dense",
        };
        hist.pop();
        out.push(EnginePos { label, pos: p, history: hist });
    }
    out
}

fn replay_of(ep: &EnginePos, k: u64, positional: bool, with_tf: bool) -> J {
    obj()
        .set("fen", ep.pos.to_fen())
        .set("expire_at_poll", k)
        .set("positional", positional)
        .set("history_fens", if with_tf { ep.history.iter().map(|p| p.to_fen()).collect::<Vec<_>>() } else { vec![] })
        .set(
            "engine_reuse_log",
            REUSE_LOG.with(|l| l.borrow().iter().map(|(f, k, p, sl)| format!("{k} {}{} {f}", *p as u8, if *sl == 1 { "m" } else { "" })).collect::<Vec<_>>()),
        )
}

fn threefold_from(hist: &[Position]) -> ThreeFold {
    let mut tf = ThreeFold::new();
    for p in hist {
        if let Ok(b) = real::parse(&p.to_fen()) {
            tf.add(b);
        }
    }
    tf
}

/// Judge one (position, k) run for C11. Returns the outcome for further use.
#[allow(clippy::too_many_arguments)]
pub fn judge_c11(c: &mut Collector, ep: &EnginePos, board: &Board, tf: &ThreeFold, with_tf: bool, legal: &[Mv], k: u64, positional: bool) -> Outcome {
    c.eval();
    c.journal(&format!("search {} k={k} positional={positional} tf={with_tf}", ep.pos.to_fen()));
    let o = run_search(board, tf, k, positional);
    c.tag(&format!("expiry-phase:{}", phase_name(&o.phase)));
    c.max("max:polls-after-expiry", o.polls_after);
    let commits = o.commits();
    c.tag(&format!("passes-completed:{}", commits.len().min(6)));
    let rp = || replay_of(ep, k, positional, with_tf);
    match &o.result {
        Err(msg) => {
            if o.runaway {
                c.violation(
                    "no-termination-after-expiry",
                    ep.label,
                    format!("{} k={k}: more than {} polls after the limit first reported expiry", ep.pos.to_fen(), 5000),
                    rp(),
                );
            } else {
                c.violation("search-panicked", "panic", format!("{} k={k}: {msg}", ep.pos.to_fen()), rp());
            }
        }
        Ok((m, score)) => {
            // bounded progress: each active recursion level polls at most once more, the root twice
            let bound = o.deepest_started() as u64 + 40 + 8;
            if o.polls_after > bound {
                c.violation(
                    "slow-termination-after-expiry",
                    ep.label,
                    format!("{} k={k}: {} polls after expiry (bound {bound})", ep.pos.to_fen(), o.polls_after),
                    rp(),
                );
            }
            match m {
                Some(m) => {
                    if !legal.contains(m) {
                        c.violation(
                            "illegal-move-returned",
                            if legal.is_empty() { "no-legal-moves" } else { "has-legal-moves" },
                            format!("{} k={k}: search returned {} which is not legal (score {})", ep.pos.to_fen(), m.uci(), score_str(*score)),
                            rp(),
                        );
                    }
                }
                None => {
                    if !legal.is_empty() && o.first_true.is_none() {
                        // the limit never reported expiry, the search stopped by itself: whatever
                        // passes it ran have finished, so it must hand back a move
                        c.violation(
                            "no-move-although-limit-never-expired",
                            ep.label,
                            format!("{} k={k}: the search returned no move after {} polls although the limit never expired ({} legal moves, {} passes committed)", ep.pos.to_fen(), o.polls, legal.len(), commits.len()),
                            rp(),
                        );
                    } else if !legal.is_empty() && commits.iter().any(|(d, _, _)| *d == 0) {
                        c.violation(
                            "no-move-after-completed-pass",
                            ep.label,
                            format!("{} k={k}: pass 0 committed but the search returned no move ({} legal moves)", ep.pos.to_fen(), legal.len()),
                            rp(),
                        );
                    }
                }
            }
            if legal.is_empty() && m.is_some() {
                // (already reported as illegal-move-returned)
            }
            // informational: the result should be what the last committed pass found
            if let Some((_, s, bm)) = commits.last() {
                if (bm, s) != (m, score) {
                    c.count("result-differs-from-last-commit");
                }
            }
        }
    }
    o
}

pub fn c11(c: &mut Collector, seed: u64, shard: u64, nshards: u64, thorough: bool, scale: f64) {
    let n_random = ((if thorough { 600.0 } else { 110.0 }) * scale).max(2.0) as u64;
    let learn_budget: u64 = if thorough { 120_000 } else { 12_000 };
    let mut positions = engine_positions(seed, shard, nshards, n_random, false);
    // rare-interaction families (short k sweep each): an e.p. capture wrongly judged legal - or a
    // legal one not generated - changes what the search may return, most visibly when it is the
    // only move (frozen family)
    {
        let mut crafted = Vec::new();
        let mut frng = Rng::new(0xF20E + shard);
        workload::ep_frozen_family(&mut frng, shard, nshards, if thorough { 16 } else { 48 }, &mut crafted);
        workload::ep_family(shard, nshards, if thorough { 64 } else { 512 }, &mut crafted);
        for cr in crafted {
            let mut p = cr.pre.clone();
            for m in &cr.moves {
                p = p.apply(*m);
            }
            let label: &'static str = if cr.family == "ep-frozen" { "ep-frozen" } else { "ep-geometry" };
            positions.push(EnginePos { label, pos: p, history: vec![] });
        }
    }
    let mut rng = Rng::new(mix3(seed, shard, 0xC11));
    for (pi, ep) in positions.iter().enumerate() {
        let Ok(board) = real::parse(&ep.pos.to_fen()) else { continue };
        let legal = ep.pos.legal_moves();
        c.count(&format!("positions:{}", ep.label));
        if legal.is_empty() {
            c.tag("terminal-position");
        }
        c.distinct(fnv(ep.pos.to_fen().as_bytes()));
        let with_tf = pi % 4 == 3 && !ep.history.is_empty();
        let tf = if with_tf { threefold_from(&ep.history) } else { ThreeFold::new() };
        if with_tf {
            c.tag("non-empty-threefold-history");
        }
        let positional = pi % 5 == 4;
        if ep.label.starts_with("ep-") {
            for k in [0u64, 1, 2, 3, 5, 9, 40, 300, 2500] {
                judge_c11(c, ep, &board, &tf, false, &legal, k, false);
            }
            continue;
        }
        // learn run: where do the commits and stage boundaries fall?
        let learn = judge_c11(c, ep, &board, &tf, with_tf, &legal, learn_budget, positional);
        let lt = learn_commit_polls(&board, &tf, learn_budget, positional);
        let mut ks: Vec<u64> = Vec::new();
        let t2 = lt.commit_polls.get(2).copied();
        let small = t2.map(|t| t <= 3000).unwrap_or(false);
        if small {
            c.tag("k-sweep-exhaustive-to-T2");
            ks.extend(0..=t2.unwrap().min(3000) + 2);
        } else {
            ks.extend(0..=64);
            for t in lt.commit_polls.iter().chain(lt.stage_polls.iter()) {
                for d in 0..=4u64 {
                    ks.push((t + 2).saturating_sub(d));
                }
            }
            for _ in 0..(if thorough { 200 } else { 40 }) {
                ks.push(rng.below(learn_budget));
            }
        }
        ks.sort_unstable();
        ks.dedup();
        for k in ks {
            judge_c11(c, ep, &board, &tf, with_tf, &legal, k, positional);
        }
        // the same oracle with every log statement of the search executed (a TRACE-level subscriber
        // that formats all fields): logging must not make the search panic or change what it owes
        if pi % 6 == 0 {
            TRACED.with(|f| f.set(true));
            for k in [0u64, 3, 17, 60] {
                c.count("traced-searches");
                judge_c11(c, ep, &board, &tf, with_tf, &legal, k, positional);
            }
            TRACED.with(|f| f.set(false));
        }
        // the engine's own wall-clock limit type decides the expiry (a nondeterministic instant; the
        // oracle does not depend on which one): 0, 1 us, 50 us, 1 ms, capped at 200000 polls
        if pi % 10 == 0 {
            for us in [0u64, 1, 50, 1000] {
                WALL_US.with(|w| w.set(Some(us)));
                c.count("wall-clock-limit-searches");
                judge_c11(c, ep, &board, &tf, with_tf, &legal, 200_000, positional);
                WALL_US.with(|w| w.set(None));
            }
        }
        // terminal positions / drawn-by-clock positions: many cheap passes; go far beyond 65536 polls
        if legal.is_empty() || ep.pos.half >= 99 {
            c.tag("long-run-on-trivial-passes");
            judge_c11(c, ep, &board, &tf, with_tf, &legal, if thorough { 400_000 } else { 140_000 }, positional);
        }
        if c.want_sample() && !learn.events.is_empty() {
            c.sample(
                replay_of(ep, learn_budget, positional, with_tf)
                    .set("commit_polls", lt.commit_polls.clone())
                    .set("result", learn.result.as_ref().map(|(m, s)| format!("{:?} {}", m.map(|x| x.uci()), score_str(*s))).unwrap_or_default()),
            );
        }
    }
    // games played with ONE engine: each search inherits whatever the engine kept from the searches
    // before it. Generous and tiny limits alternate in pairs, so that a search cut short inside its
    // first pass follows a long search of the position two plies earlier (for both parities).
    {
        let mut grng = Rng::new(mix3(seed, shard, 0x6A3E));
        let n_games = ((if thorough { 160.0 } else { 36.0 }) * scale).max(2.0) as usize;
        for g in 0..n_games {
            let theme = [Theme::Promo, Theme::PawnRace, Theme::Promo, Theme::Sparse, Theme::MatingNet, Theme::Mid][g % 6];
            let Some(start) = workload::random_placement(&mut grng, theme, false) else { continue };
            if start.chess_root_ok().is_err() {
                continue;
            }
            c.count("engine-reuse-games");
            with_persistent_engine(|| {
                let mut pos = start.clone();
                for ply in 0..12usize {
                    let legal = pos.legal_moves();
                    if legal.is_empty() || pos.half >= 100 {
                        break;
                    }
                    let Ok(board) = real::parse(&pos.to_fen()) else { break };
                    let k = match ply % 4 {
                        0 | 1 => 1500 + grng.below(1500),
                        2 => grng.below(11),
                        _ => grng.below(4),
                    };
                    let ep = EnginePos { label: "engine-reuse-game", pos: pos.clone(), history: vec![] };
                    c.count("engine-reuse-searches");
                    let o = judge_c11(c, &ep, &board, &ThreeFold::new(), false, &legal, k, false);
                    let chosen = match &o.result {
                        Ok((Some(m), _)) if legal.contains(m) => *m,
                        _ => *grng.pick(&legal),
                    };
                    if chosen.promo.is_some() {
                        c.tag("engine-reuse:promotion-played");
                    }
                    pos = pos.apply(chosen);
                }
            });
        }
    }
    c.add("traced-log-bytes", SINK_BYTES.load(std::sync::atomic::Ordering::Relaxed));
    // fixed terminal and clock positions (S10a: depth counter on passes that cost one poll)
    if shard == 0 {
        for fen in [
            "7k/5Q2/6K1/8/8/8/8/8 b - - 0 1",
            "7k/5K2/6Q1/8/8/8/8/8 b - - 0 1",
            "k7/8/1K6/8/8/8/8/7R w - - 99 1",
            "k7/8/1K6/8/8/8/8/7R w - - 100 1",
            "8/8/8/8/8/5k2/4n1n1/7K w - - 0 1",
        ] {
            let p = Position::from_fen(fen).unwrap();
            let ep = EnginePos { label: "fixed-terminal-or-clock", pos: p.clone(), history: vec![] };
            if let Ok(board) = real::parse(fen) {
                c.tag("long-run-on-trivial-passes");
                let legal = p.legal_moves();
                for k in [0u64, 1, 2, 70_000, 140_000, 2_000_000] {
                    judge_c11(c, &ep, &board, &ThreeFold::new(), false, &legal, k, false);
                }
            }
        }
    }
}

pub struct LearnTimes {
    pub commit_polls: Vec<u64>,
    pub stage_polls: Vec<u64>,
}

/// Second pass over the same deterministic search, recording at which poll index each commit /
/// stage event first became visible.
fn learn_commit_polls(board: &Board, tf: &ThreeFold, budget: u64, positional: bool) -> LearnTimes {
    struct T {
        polls: Cell<u64>,
        budget: u64,
        seen: Cell<usize>,
        commits: std::cell::RefCell<Vec<u64>>,
        stages: std::cell::RefCell<Vec<u64>>,
    }
    impl Timeout for T {
        fn is_complete(&self) -> bool {
            let k = self.polls.get();
            self.polls.set(k + 1);
            let ec = verif::event_count();
            if ec != self.seen.get() {
                // inspect the new events
                let evs = verif::take_events();
                for e in &evs {
                    match e {
                        Event::PassCommit { .. } => self.commits.borrow_mut().push(k),
                        Event::Stage { .. } => {
                            if self.stages.borrow().len() < 40 {
                                self.stages.borrow_mut().push(k)
                            }
                        }
                        _ => {}
                    }
                }
                self.seen.set(0);
            }
            k >= self.budget
        }
    }
    let _ = verif::take_events();
    let t = T { polls: Cell::new(0), budget, seen: Cell::new(0), commits: Default::default(), stages: Default::default() };
    let mut engine = Engine::default();
    engine.positional = positional;
    let _ = catch_unwind(AssertUnwindSafe(|| engine.search(board, tf, &t)));
    let _ = verif::take_events();
    let commit_polls = t.commits.borrow().clone();
    let stage_polls = t.stages.borrow().clone();
    LearnTimes { commit_polls, stage_polls }
}

// ------------------------------------------------------------------------------------------ C12

pub fn c12(c: &mut Collector, seed: u64, shard: u64, nshards: u64, thorough: bool, scale: f64) {
    let n_random = ((if thorough { 3000.0 } else { 500.0 }) * scale).max(2.0) as u64;
    let budget: u64 = if thorough { 1_200_000 } else { 400_000 };
    let mut positions = engine_positions(seed, shard, nshards, n_random, true);
    // classic mates in one (both colours via mirror)
    if shard == 0 {
        for fen in workload::CLASSIC_MATES.iter().copied() {
            if let Ok(p) = Position::from_fen(fen) {
                if p.chess_root_ok().is_ok() {
                    positions.push(EnginePos { label: "classic-mate", pos: p.mirror(), history: vec![] });
                    positions.push(EnginePos { label: "classic-mate", pos: p, history: vec![] });
                }
            }
        }
    }
    // mates by a capture that leaves only two minor pieces (insufficient-material boundary)
    for (i, p) in workload::small_material_mates().into_iter().enumerate() {
        if i as u64 % nshards == shard {
            positions.push(EnginePos { label: "small-material-capture-mate", pos: p, history: vec![] });
        }
    }
    // mates delivered by special moves: e.p. capture (also by a capturer pinned along its capture
    // diagonal), castling, each promotion piece - constructed by the model's mate maker
    {
        let mut crafted = Vec::new();
        let mut rng = Rng::new(mix3(seed, shard, 0x3A7E));
        workload::special_mate_family(&mut rng, if thorough { 6000 } else { 700 }, &mut crafted);
        workload::pinned_capture_mate_family(&mut rng, shard, nshards, &mut crafted);
        workload::interposition_near_mate_family(&mut rng, shard, nshards, &mut crafted);
        for cr in crafted {
            let mut p = cr.pre.clone();
            for m in &cr.moves {
                p = p.apply(*m);
            }
            let label: &'static str = match cr.family {
                "ep-mate" => "ep-mate",
                "ep-mate-pinned-capturer" => "ep-mate-pinned-capturer",
                "castle-mate" => "castle-mate",
                "pinned-piece-captures-pinner-mate" => "pinned-piece-captures-pinner-mate",
                "interposition-near-mate" => "interposition-near-mate",
                "promotion-mate-knight" => "promotion-mate-knight",
                "promotion-mate-bishop" => "promotion-mate-bishop",
                "promotion-mate-rook" => "promotion-mate-rook",
                _ => "promotion-mate-queen",
            };
            c.tag(&format!("special-mate:{label}"));
            positions.push(EnginePos { label, pos: p, history: vec![] });
        }
    }
    for (pi, ep) in positions.iter().enumerate() {
        if ep.label == "small-material-capture-mate" {
            c.tag("small-material-capture-mate");
        }
        c12_one(c, ep, pi, seed, shard, budget);
    }
    // the same oracle inside a game: one engine first searches the position two plies (and one ply)
    // before the mate in one, then the mate-in-one position itself; and in the other order (a
    // take-back). Anything the engine keeps between searches must not falsify the report.
    {
        let mut rrng = Rng::new(mix3(seed, shard, 0x12E5));
        let limit = if thorough { 240 } else { 50 };
        let mut done = 0usize;
        for (pi, ep) in positions.iter().enumerate() {
            if done >= limit {
                break;
            }
            if mating_moves(&ep.pos).is_empty() || ep.pos.half >= 98 {
                continue;
            }
            let Some((p1, _)) = workload::predecessor(&mut rrng, &ep.pos) else { continue };
            let Some((p2, _)) = workload::predecessor(&mut rrng, &p1) else { continue };
            let (Ok(b1), Ok(b2)) = (real::parse(&p1.to_fen()), real::parse(&p2.to_fen())) else { continue };
            done += 1;
            c.count("engine-reuse-mate-lines");
            let warm = 60_000u64;
            let e2 = EnginePos { label: "engine-reuse-two-plies-before-mate", pos: p2.clone(), history: vec![] };
            let e1 = EnginePos { label: "engine-reuse-one-ply-before-mate", pos: p1.clone(), history: vec![] };
            let em = EnginePos { label: "engine-reuse-mate", pos: ep.pos.clone(), history: vec![] };
            // forwards: the game reaches the mate
            with_persistent_engine(|| {
                let _ = run_search(&b2, &ThreeFold::new(), warm, false);
                let _ = run_search(&b1, &ThreeFold::new(), warm, false);
                c12_one(c, &em, pi * 4, seed, shard, budget);
            });
            // backwards: a take-back after the mate was seen
            with_persistent_engine(|| {
                c12_one(c, &em, pi * 4 + 1, seed, shard, budget);
                c12_one(c, &e1, pi * 4 + 1, seed, shard, warm);
                c12_one(c, &e2, pi * 4 + 1, seed, shard, warm);
            });
        }
    }
}

pub fn c12_one(c: &mut Collector, ep: &EnginePos, pi: usize, seed: u64, shard: u64, budget: u64) {
    let Ok(board) = real::parse(&ep.pos.to_fen()) else { return };
    let legal = ep.pos.legal_moves();
    if legal.is_empty() {
        return;
    }
    let mates = mating_moves(&ep.pos);
    let positional = pi % 4 == 3;
    c.eval();
    c.journal(&format!("mate-search {} positional={positional}", ep.pos.to_fen()));
    c.tag(match mates.len() {
        0 => "mating-moves:0",
        1 => "mating-moves:1",
        _ => "mating-moves:>1",
    });
    if !mates.is_empty() {
        c.distinct(fnv(ep.pos.to_fen().as_bytes()));
        for m in &mates {
            if ep.pos.is_capture(*m) {
                c.tag("mating-capture");
            }
            if m.promo.is_some() {
                c.tag("mating-promotion");
            }
            if ep.pos.is_ep_capture(*m) {
                c.tag("mating-ep");
            }
            if ep.pos.is_castle(*m) {
                c.tag("mating-castle");
            }
            let n = ep.pos.apply(*m);
            if n.checkers().len() == 2 {
                c.tag("mating-double-check");
            }
        }
    } else if legal.iter().any(|m| ep.pos.apply(*m).in_check()) {
        c.tag("near-miss:check-but-no-mate");
    }
    let tf = ThreeFold::new();
    let o = run_search(&board, &tf, budget, positional);
    let commits = o.commits();
    let rp = replay_of(ep, budget, positional, false);
    let (m, score) = match &o.result {
        Ok(x) => *x,
        Err(e) => {
            c.violation("search-panicked", "panic", format!("{}: {e}", ep.pos.to_fen()), rp);
            return;
        }
    };
    let mover_mate1 = match ep.pos.turn {
        Col::W => Score::WhiteMateIn(1),
        Col::B => Score::BlackMateIn(1),
    };
    let other_mate1 = negate(mover_mate1);
    let committed0 = commits.iter().any(|(d, _, _)| *d == 0);
    if !committed0 {
        c.count("pass0-not-finished-within-budget");
    } else {
        c.count("pass0-finished");
        if !mates.is_empty() {
            c.count("mate-in-one-positions-judged");
            let ok = m.map(|x| mates.contains(&x)).unwrap_or(false) && score == mover_mate1;
            if !ok {
                c.violation(
                    "mate-in-one-missed",
                    if mates.len() == 1 { "single-mate" } else { "several-mates" },
                    format!(
                        "{}: mating moves [{}] exist and pass 0 finished, but the search returned {:?} with score {}",
                        ep.pos.to_fen(),
                        mates.iter().map(|x| x.uci()).collect::<Vec<_>>().join(" "),
                        m.map(|x| x.uci()),
                        score_str(score)
                    ),
                    rp.clone(),
                );
            }
        }
    }
    // truthfulness, for every outcome (also aborted ones) and every committed pass
    let mut claims: Vec<(Option<Mv>, Score, &str)> = vec![(m, score, "result")];
    for (_, s, bm) in &commits {
        claims.push((*bm, *s, "commit"));
    }
    for (mm, s, what) in claims {
        if s == mover_mate1 {
            c.count("mate-in-one-claims");
            let really = mm.map(|x| mates.contains(&x)).unwrap_or(false);
            if !really {
                c.violation(
                    "false-mate-in-one-claim",
                    what,
                    format!("{}: {what} claims {} with move {:?}, which does not checkmate", ep.pos.to_fen(), score_str(s), mm.map(|x| x.uci())),
                    rp.clone(),
                );
            }
        }
        if s == other_mate1 {
            c.violation(
                "mate-in-one-for-side-not-to-move",
                what,
                format!("{}: {what} reports {} although that side is not to move", ep.pos.to_fen(), score_str(s)),
                rp.clone(),
            );
        }
    }
    // the same with an early expiry somewhere inside pass 0: still truthful
    if pi % 3 == 0 {
        let mut rng = Rng::new(mix3(seed, shard, pi as u64));
        for _ in 0..4 {
            let k = rng.below(o.polls.max(2));
            let o2 = run_search(&board, &tf, k, positional);
            c.count("early-expiry-runs");
            if let Ok((m2, s2)) = o2.result {
                if s2 == mover_mate1 && !m2.map(|x| mates.contains(&x)).unwrap_or(false) {
                    c.violation(
                        "false-mate-in-one-claim",
                        "early-expiry",
                        format!("{} k={k}: claims {} with {:?}", ep.pos.to_fen(), score_str(s2), m2.map(|x| x.uci())),
                        replay_of(ep, k, positional, false),
                    );
                }
                let c0 = o2.commits().iter().any(|(d, _, _)| *d == 0);
                if c0 && !mates.is_empty() && !(m2.map(|x| mates.contains(&x)).unwrap_or(false) && s2 == mover_mate1) {
                    c.violation(
                        "mate-in-one-missed",
                        "early-expiry",
                        format!("{} k={k}: pass 0 finished, returned {:?} {}", ep.pos.to_fen(), m2.map(|x| x.uci()), score_str(s2)),
                        replay_of(ep, k, positional, false),
                    );
                }
            }
        }
    }
    if c.want_sample() && !mates.is_empty() {
        c.sample(rp.set("mating_moves", mates.iter().map(|x| x.uci()).collect::<Vec<_>>()).set("returned", m.map(|x| x.uci())).set("score", score_str(score)));
    }
}

// ------------------------------------------------------------------------------------------ C13

pub fn c13(c: &mut Collector, seed: u64, shard: u64, nshards: u64, thorough: bool, scale: f64) {
    let n_random = ((if thorough { 6000.0 } else { 1200.0 }) * scale).max(2.0) as u64;
    let budget: u64 = if thorough { 300_000 } else { 60_000 };
    let mut positions = engine_positions(seed.wrapping_add(77), shard, nshards, n_random, false);
    // colour-specific slips in the rare move kinds only show when such a move occurs inside the tree:
    // e.p. families are searched from the position BEFORE the double step, promotion / special-mate
    // families from a predecessor position (promotion moves at the root are excluded by the property)
    {
        let mut rng = Rng::new(mix3(seed, shard, 0xC13F));
        let mut crafted = Vec::new();
        workload::ep_family(shard, nshards, if thorough { 24 } else { 160 }, &mut crafted);
        let mut frng = Rng::new(0xF20E + shard);
        workload::ep_frozen_family(&mut frng, shard, nshards, if thorough { 32 } else { 128 }, &mut crafted);
        for cr in &crafted {
            positions.push(EnginePos { label: "ep-family-before-double-step", pos: cr.pre.clone(), history: vec![] });
        }
        // two pinned pieces of one kind (iteration order over the pinned set is not mirror-symmetric)
        let mut dp = Vec::new();
        let mut dprng = Rng::new(0xD0B1 + shard);
        workload::double_pin_family(&mut dprng, if thorough { 400 } else { 60 }, &mut dp);
        for cr in dp {
            positions.push(EnginePos { label: "double-pin", pos: cr.pre, history: vec![] });
        }
        let mut other = Vec::new();
        workload::promo_family(&mut other);
        let stride = if thorough { 8 } else { 48 };
        for (i, cr) in other.iter().enumerate() {
            if i as u64 % (nshards * stride) == shard {
                if let Some((q, _)) = workload::predecessor(&mut rng, &cr.pre) {
                    positions.push(EnginePos { label: "promotion-family-predecessor", pos: q, history: vec![] });
                }
            }
        }
        let mut sm = Vec::new();
        workload::special_mate_family(&mut rng, if thorough { 1500 } else { 200 }, &mut sm);
        for cr in &sm {
            if cr.moves.is_empty() {
                if let Some((q, _)) = workload::predecessor(&mut rng, &cr.pre) {
                    positions.push(EnginePos { label: "special-mate-predecessor", pos: q, history: vec![] });
                }
            } else {
                positions.push(EnginePos { label: "ep-mate-before-double-step", pos: cr.pre.clone(), history: vec![] });
            }
        }
    }
    for ep in positions.iter() {
        c.count(&format!("positions:{}", ep.label));
        c13_one(c, ep, budget);
    }
    // games in which one engine keeps searching the positions and a second engine their mirrors:
    // whatever an engine carries from search to search must stay colour-symmetric too
    {
        let mut grng = Rng::new(mix3(seed, shard, 0x13AE));
        let n_games = ((if thorough { 80.0 } else { 14.0 }) * scale).max(1.0) as usize;
        for g in 0..n_games {
            let theme = [Theme::Sparse, Theme::PawnRace, Theme::MatingNet, Theme::Mid][g % 4];
            let Some(start) = workload::random_placement(&mut grng, theme, false) else { continue };
            if start.chess_root_ok().is_err() {
                continue;
            }
            c.count("engine-reuse-games");
            with_persistent_engine(|| {
                let mut pos = start.clone();
                for _ply in 0..8usize {
                    let legal = pos.legal_moves();
                    if legal.is_empty() || pos.half >= 100 {
                        break;
                    }
                    let ep = EnginePos { label: "engine-reuse-game", pos: pos.clone(), history: vec![] };
                    c.count("engine-reuse-pairs");
                    let before = c.violation_total;
                    let found = c13_pair(c, &ep, budget / 4);
                    if c.violation_total > before {
                        break;
                    }
                    let chosen = match found {
                        Some(m) if legal.contains(&m) => m,
                        _ => *grng.pick(&legal),
                    };
                    pos = pos.apply(chosen);
                }
            });
        }
    }
}

pub fn c13_one(c: &mut Collector, ep: &EnginePos, budget: u64) {
    let _ = c13_pair(c, ep, budget);
}

/// Search a position and its colour mirror (with the second persistent engine, when engines are
/// kept) and compare every common depth; returns the move found for the position itself.
pub fn c13_pair(c: &mut Collector, ep: &EnginePos, budget: u64) -> Option<Mv> {
    c13_pair_inner(c, ep, budget).flatten()
}

fn c13_pair_inner(c: &mut Collector, ep: &EnginePos, budget: u64) -> Option<Option<Mv>> {
    let p = &ep.pos;
    let legal = p.legal_moves();
    if legal.iter().any(|m| m.promo.is_some()) {
        c.count("skipped-root-promotion");
        return None;
    }
    let q = p.mirror();
    let (Ok(b1), Ok(b2)) = (real::parse(&p.to_fen()), real::parse(&q.to_fen())) else { return None };
    c.eval();
    c.journal(&format!("symmetry {}", p.to_fen()));
    let tf = ThreeFold::new();
    SLOT.with(|x| x.set(0));
    let o1 = run_search(&b1, &tf, budget, false);
    SLOT.with(|x| x.set(1));
    let o2 = run_search(&b2, &tf, budget, false);
    SLOT.with(|x| x.set(0));
    let rp = replay_of(ep, budget, false, false).set("mirror_fen", q.to_fen());
    if let (Err(e), _) | (_, Err(e)) = (&o1.result, &o2.result) {
        c.violation("search-panicked", "panic", format!("{}: {e}", p.to_fen()), rp);
        return None;
    }
    let found = o1.result.as_ref().ok().and_then(|(m, _)| *m);
    let c1 = o1.commits();
    let c2 = o2.commits();
    let common = c1.len().min(c2.len()).min(16);
    c.tag(&format!("common-depths:{}", common.min(6)));
    if common > 0 {
        c.distinct(fnv(p.to_fen().as_bytes()));
    }
    for d in 0..common {
        c.count("depth-comparisons");
        let (s1, s2) = (c1[d].1, c2[d].1);
        c.tag(match s1 {
            Score::Raw(0) => "score-kind:raw-zero",
            Score::Raw(_) => "score-kind:raw",
            Score::WhiteMateIn(_) | Score::BlackMateIn(_) => "score-kind:mate",
            _ => "score-kind:sentinel",
        });
        if negate(s1) != s2 {
            c.violation(
                "asymmetric-score",
                &format!("depth{}", d.min(4)),
                format!(
                    "{} scores {} at depth {d}; its mirror {} scores {} (expected {})",
                    p.to_fen(),
                    score_str(s1),
                    q.to_fen(),
                    score_str(s2),
                    score_str(negate(s1))
                ),
                rp.clone().set("depth", d),
            );
            return None;
        }
        // the best moves are not compared (ties may break differently), but the mirrored best
        // move must at least be legal in the mirror
    }
    if c.want_sample() && common >= 2 {
        c.sample(rp.set("scores", c1.iter().take(common).map(|x| score_str(x.1)).collect::<Vec<_>>()).set("mirror_scores", c2.iter().take(common).map(|x| score_str(x.1)).collect::<Vec<_>>()));
    }
    Some(found)
}

pub fn replay(c: &mut Collector, prop: &str, r: &J) -> i32 {
    let fen = r.get("fen").and_then(|x| x.as_str()).unwrap_or("");
    let Ok(p) = Position::from_fen(fen) else {
        println!("bad fen in replay");
        return 2;
    };
    let k = r.get("expire_at_poll").and_then(|x| x.as_u64()).unwrap_or(10_000);
    let positional = r.get("positional").and_then(|x| x.as_bool()).unwrap_or(false);
    let hist: Vec<Position> = r
        .get("history_fens")
        .and_then(|x| x.as_arr())
        .map(|a| a.iter().filter_map(|f| f.as_str().and_then(|s| Position::from_fen(s).ok())).collect())
        .unwrap_or_default();
    let ep = EnginePos { label: "replay", pos: p.clone(), history: hist.clone() };
    let Ok(board) = real::parse(fen) else { return 2 };
    let tf = threefold_from(&hist);
    let legal = p.legal_moves();
    // a case found with a persistent engine: repeat the searches that engine had made before
    let log: Vec<(u64, bool, String, usize)> = r
        .get("engine_reuse_log")
        .and_then(|x| x.as_arr())
        .map(|a| {
            a.iter()
                .filter_map(|e| {
                    let t = e.as_str()?;
                    let mut it = t.splitn(3, ' ');
                    let kk: u64 = it.next()?.parse().ok()?;
                    let flag = it.next()?;
                    Some((kk, flag.starts_with('1'), it.next()?.to_string(), flag.ends_with('m') as usize))
                })
                .collect()
        })
        .unwrap_or_default();
    if !log.is_empty() {
        println!("replaying {} earlier search(es) of the same engine first", log.len());
        return with_persistent_engine(|| {
            // the log may or may not end with the failing search itself; everything before the last
            // entry that equals (fen, k) is warm-up
            let last = log.iter().rposition(|(kk, pp, f, sl)| *kk == k && *pp == positional && f == fen && *sl == 0).unwrap_or(log.len());
            for (kk, pp, f, sl) in &log[..last] {
                if let Ok(b) = real::parse(f) {
                    SLOT.with(|x| x.set(*sl));
                    let _ = run_search(&b, &ThreeFold::new(), *kk, *pp);
                }
            }
            SLOT.with(|x| x.set(0));
            replay_inner(c, prop, &ep, &board, &tf, !hist.is_empty(), &legal, k, positional, fen)
        });
    }
    replay_inner(c, prop, &ep, &board, &tf, !hist.is_empty(), &legal, k, positional, fen)
}

#[allow(clippy::too_many_arguments)]
fn replay_inner(c: &mut Collector, prop: &str, ep: &EnginePos, board: &Board, tf: &ThreeFold, with_tf: bool, legal: &[Mv], k: u64, positional: bool, fen: &str) -> i32 {
    match prop {
        "C11" => {
            let o = judge_c11(c, ep, board, tf, with_tf, legal, k, positional);
            println!("search({fen}, expire at poll {k}) -> {:?}; commits {:?}", o.result.as_ref().map(|(m, s)| (m.map(|x| x.uci()), score_str(*s))), o.commits().iter().map(|x| (x.0, score_str(x.1))).collect::<Vec<_>>());
        }
        "C12" => c12_one(c, ep, if positional { 3 } else { 1 }, 1, 0, k),
        _ => c13_one(c, ep, k),
    }
    for v in &c.violations {
        println!("VIOLATION property={prop}\n  {}/{}: {}", v.kind, v.signature, v.detail);
    }
    if c.violation_total > 0 { 1 } else { 0 }
}
