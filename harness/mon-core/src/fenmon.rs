//! C06: FEN parsing is total and admits only playable positions; builder likewise.

use crate::posmon::{reachable_family, Node, Oracle};
use crate::real::{self, col, kind, observe, pos};
use refmodel::report::Collector;
use chess_movegen::fen::parse_fen;
use chess_movegen::Board;
use refmodel::json::obj;
use refmodel::rng::{fnv, Rng};
use refmodel::*;
use std::panic::{catch_unwind, AssertUnwindSafe};

fn bytes_repr(b: &[u8]) -> String {
    let mut s = String::new();
    for &c in b.iter().take(400) {
        if (0x20..0x7f).contains(&c) && c != b'\\' {
            s.push(c as char);
        } else {
            s.push_str(&format!("\\x{c:02x}"));
        }
    }
    if b.len() > 400 {
        s.push_str(&format!("...(+{} bytes)", b.len() - 400));
    }
    s
}

fn hex(b: &[u8]) -> String {
    b.iter().map(|x| format!("{x:02x}")).collect()
}

pub fn unhex(s: &str) -> Vec<u8> {
    (0..s.len() / 2).filter_map(|i| u8::from_str_radix(&s[2 * i..2 * i + 2], 16).ok()).collect()
}

/// The oracle: whatever the parser says about `input`, it must not panic, and an accepted board
/// must satisfy the acceptance conditions the property lists.
pub fn judge_bytes(c: &mut Collector, input: &[u8], origin: &str) -> Option<Board> {
    c.eval();
    c.journal(&format!("parse {origin} {}", hex(&input[..input.len().min(300)])));
    c.distinct(fnv(input));
    let r = catch_unwind(AssertUnwindSafe(|| parse_fen(input)));
    // the `FromStr` entry (what clap uses for the CLI's board argument) must be the same parser
    if let (Ok(text), Ok(by_bytes)) = (std::str::from_utf8(input), &r) {
        c.count("fromstr-agreement-checks");
        match catch_unwind(AssertUnwindSafe(|| text.parse::<Board>())) {
            Err(_) => c.violation(
                "parser-panicked",
                "from_str",
                format!("str::parse::<Board> panicked on \"{}\"", bytes_repr(input)),
                obj().set("input_hex", hex(input)).set("origin", origin),
            ),
            Ok(by_str) => {
                let same = match (by_bytes, &by_str) {
                    (Ok(a), Ok(b)) => a == b && a.to_string() == b.to_string() && a.zobrist() == b.zobrist(),
                    (Err(a), Err(b)) => format!("{a:?}") == format!("{b:?}"),
                    _ => false,
                };
                if !same {
                    c.violation(
                        "fromstr-differs-from-parse_fen",
                        "from_str",
                        format!("\"{}\": parse_fen gives {:?}, str::parse gives {:?}", bytes_repr(input), by_bytes.as_ref().map(|b| b.to_string()), by_str.as_ref().map(|b| b.to_string())),
                        obj().set("input_hex", hex(input)).set("origin", origin),
                    );
                }
            }
        }
    }
    match r {
        Err(p) => {
            let msg = p.downcast_ref::<String>().cloned().or(p.downcast_ref::<&str>().map(|s| s.to_string())).unwrap_or_default();
            c.violation(
                "parser-panicked",
                origin,
                format!("parse_fen panicked on \"{}\": {msg}", bytes_repr(input)),
                obj().set("input_hex", hex(input)).set("origin", origin),
            );
            None
        }
        Ok(Err(e)) => {
            c.count("rejected");
            let dbg = format!("{e:?}");
            let variant: String = dbg.chars().take_while(|ch| ch.is_alphanumeric()).collect();
            let variant = if variant == "BoardValidation" { dbg.replace(['(', ')'], ":") } else { variant };
            c.tag(&format!("err:{variant}"));
            // the error's Display must be total as well
            if catch_unwind(AssertUnwindSafe(|| format!("{e}"))).is_err() {
                c.violation(
                    "error-display-panicked",
                    &variant,
                    format!("Display of {dbg} panicked (input \"{}\")", bytes_repr(input)),
                    obj().set("input_hex", hex(input)).set("origin", origin),
                );
            }
            None
        }
        Ok(Ok(b)) => {
            c.count("accepted");
            c.tag(&format!("accepted:{origin}"));
            judge_board(c, &b, &format!("parse_fen(\"{}\")", bytes_repr(input)), obj().set("input_hex", hex(input)).set("origin", origin), origin);
            Some(b)
        }
    }
}

pub fn judge_board(c: &mut Collector, b: &Board, how: &str, replay: refmodel::json::J, origin: &str) {
    match observe(b) {
        Err(e) => c.violation("accepted-board-unobservable", origin, format!("{how}: {e}"), replay),
        Ok(p) => {
            if let Err(why) = p.c06_ok() {
                c.violation(
                    &format!("accepted-unplayable:{why}"),
                    origin,
                    format!("{how} returned a board violating '{why}': {}", p.to_fen()),
                    replay,
                );
            } else if let Err(e) = real::partition_ok(b) {
                c.violation("accepted-board-not-partition", origin, format!("{how}: {e}"), replay);
            }
        }
    }
}

const ALPHABET: &[u8] = b"pnbrqkPNBRQK12345678/ wb-KQkqabcdefgh36 0123456789 \t\n\0\xff\xe1xXzZ+*.,";

pub fn mutate(rng: &mut Rng, base: &[u8]) -> Vec<u8> {
    let mut s = base.to_vec();
    let n_ops = 1 + rng.below(3);
    for _ in 0..n_ops {
        let len = s.len();
        match rng.below(20) {
            0 | 1 if len > 0 => {
                let i = rng.below(len as u64) as usize;
                s[i] = *rng.pick(ALPHABET);
            }
            2 | 3 => {
                let i = rng.below(len as u64 + 1) as usize;
                s.insert(i, *rng.pick(ALPHABET));
            }
            4 | 5 if len > 0 => {
                let i = rng.below(len as u64) as usize;
                s.remove(i);
            }
            6 if len > 1 => {
                // duplicate a slice
                let i = rng.below(len as u64) as usize;
                let j = (i + 1 + rng.below(8) as usize).min(len);
                let sl = s[i..j].to_vec();
                let at = rng.below(len as u64 + 1) as usize;
                for (k, b) in sl.into_iter().enumerate() {
                    s.insert(at + k, b);
                }
            }
            7 | 8 | 9 | 10 => {
                // field-level edits
                let mut fields: Vec<Vec<u8>> = s.split(|b| *b == b' ').map(|f| f.to_vec()).collect();
                let nf = fields.len();
                match rng.below(6) {
                    0 if nf > 1 => {
                        let i = rng.below(nf as u64) as usize;
                        fields.remove(i);
                    }
                    1 if nf > 1 => {
                        let i = rng.below(nf as u64) as usize;
                        let j = rng.below(nf as u64) as usize;
                        fields.swap(i, j);
                    }
                    2 => {
                        let i = rng.below(nf as u64) as usize;
                        let f = fields[i].clone();
                        fields.insert(i, f);
                    }
                    3 => {
                        let i = rng.below(nf as u64) as usize;
                        let repl: &[&[u8]] = &[b"9", b"00", b"10000", b"65535", b"65536", b"99999", b"0000", b"-", b"", b"KQkq", b"qkQK", b"KK", b"e3", b"e6", b"e4", b"i6", b"a9", b"w", b"b", b"W", b"-1", b"1e3", b"4294967296"];
                        fields[i] = rng.pick(repl).to_vec();
                    }
                    4 => {
                        // clocks to extremes
                        if nf >= 6 {
                            let h: [&[u8]; 6] = [b"9999", b"100", b"99", b"0", b"65535", b"12345"];
                            let f: [&[u8]; 5] = [b"9999", b"1", b"0", b"65535", b"54321"];
                            fields[4] = rng.pick(&h).to_vec();
                            fields[5] = rng.pick(&f).to_vec();
                        }
                    }
                    _ => {
                        let i = rng.below(nf as u64) as usize;
                        fields[i].clear();
                    }
                }
                let sep: &[u8] = if rng.chance(1, 6) { b"  " } else { b" " };
                s = fields.join(sep);
            }
            11 => {
                // rank separators
                if let Some(i) = s.iter().position(|b| *b == b'/') {
                    match rng.below(3) {
                        0 => {
                            s.remove(i);
                        }
                        1 => s[i] = b' ',
                        _ => s.insert(i, b'/'),
                    }
                }
            }
            12 => {
                // digit runs
                let repl: &[&[u8]] = &[b"9", b"0", b"44", b"71", b"17", b"8", b"81", b"18", b"88"];
                if let Some(i) = s.iter().position(|b| b.is_ascii_digit()) {
                    let r = rng.pick(repl).to_vec();
                    s.splice(i..i + 1, r);
                }
            }
            13 => {
                let tails: [&[u8]; 8] = [b" ", b"  ", b" 1", b"x", b"\0", b"\n", b" w", b"/8"];
                let t: &[u8] = *rng.pick(&tails);
                s.extend_from_slice(t);
            }
            14 if len > 0 => {
                let k = rng.below(len as u64) as usize;
                s.truncate(k);
            }
            15 => {
                // non-ASCII / control
                let i = rng.below(len as u64 + 1) as usize;
                s.insert(i, *rng.pick(&[0u8, 0x80, 0xff, 0xc3, 0x7f, 0x1b]));
            }
            16 if rng.chance(1, 20) => {
                // very long input
                let unit = s.clone();
                for _ in 0..rng.range(50, 2000) {
                    s.extend_from_slice(&unit);
                }
            }
            17 => {
                // case flip of a letter
                if let Some(i) = s.iter().position(|b| b.is_ascii_alphabetic()) {
                    let j = i + rng.below((len - i) as u64) as usize;
                    if s[j].is_ascii_alphabetic() {
                        s[j] ^= 0x20;
                    }
                }
            }
            _ => {
                // add a piece letter somewhere in the placement
                let end = s.iter().position(|b| *b == b' ').unwrap_or(len);
                let i = rng.below(end as u64 + 1) as usize;
                s.insert(i, *rng.pick(b"pnbrqkPNBRQK"));
            }
        }
    }
    s
}

/// Semantic near-misses built from a valid model position: each corrupts exactly one acceptance
/// condition; returns (kind, corrupted position).
pub fn semantic_near_misses(rng: &mut Rng, p: &Position) -> Vec<(&'static str, Position)> {
    let mut out = Vec::new();
    // 1. remove a home rook but keep its right; claim a right that the placement does not support
    for (idx, c, rf, name) in [
        (WK, Col::W, 7, "right-without-h1-rook"),
        (WQ, Col::W, 0, "right-without-a1-rook"),
        (BK, Col::B, 7, "right-without-h8-rook"),
        (BQ, Col::B, 0, "right-without-a8-rook"),
    ] {
        let hr = c.home_rank();
        let mut q = p.clone();
        q.castle[idx] = true;
        if q.board[sq(rf, hr) as usize] == Some((c, Kind::R)) {
            q.board[sq(rf, hr) as usize] = if rng.chance(1, 2) { None } else { Some((c.flip(), Kind::R)) };
        }
        // make the king condition true so that only the rook condition fails, when possible
        if q.board[sq(4, hr) as usize] == Some((c, Kind::K)) {
            out.push((name, q));
        } else {
            out.push(("right-without-king-home", q));
        }
    }
    // 2. kings: none / two / three
    {
        let mut q = p.clone();
        let k = q.king_sq(Col::W).unwrap();
        q.board[k as usize] = None;
        out.push(("no-white-king", q));
        let mut q = p.clone();
        let k = q.king_sq(Col::B).unwrap();
        q.board[k as usize] = None;
        out.push(("no-black-king", q));
        let mut q = p.clone();
        for _ in 0..rng.range(1, 2) {
            let s = rng.below(64) as usize;
            if q.board[s].is_none() {
                q.board[s] = Some((if rng.chance(1, 2) { Col::W } else { Col::B }, Kind::K));
            }
        }
        out.push(("extra-king", q));
    }
    // 3. seventeen men of one colour
    {
        let mut q = p.clone();
        let c = if rng.chance(1, 2) { Col::W } else { Col::B };
        let mut guard = 0;
        while q.count(c) < 17 && guard < 500 {
            guard += 1;
            let s = rng.below(64) as usize;
            if q.board[s].is_none() {
                q.board[s] = Some((c, *rng.pick(&[Kind::P, Kind::N, Kind::B, Kind::R, Kind::Q])));
            }
        }
        out.push(("seventeen-men", q));
    }
    // 4. e.p. marker corruptions
    {
        let opp = p.turn.flip();
        let f = rng.below(8) as i32;
        let land = opp.pawn_start_rank() + 2 * opp.fwd();
        let target = land - opp.fwd();
        // no pawn behind the target
        let mut q = p.clone();
        q.ep = Some(f as u8);
        q.board[sq(f, land) as usize] = None;
        out.push(("ep-without-pawn", q));
        // own pawn instead of enemy pawn
        let mut q = p.clone();
        q.ep = Some(f as u8);
        if !matches!(q.board[sq(f, land) as usize], Some((_, Kind::K))) {
            q.board[sq(f, land) as usize] = Some((p.turn, Kind::P));
            out.push(("ep-own-pawn", q));
        }
        // other enemy piece instead of pawn
        let mut q = p.clone();
        q.ep = Some(f as u8);
        if !matches!(q.board[sq(f, land) as usize], Some((_, Kind::K))) {
            q.board[sq(f, land) as usize] = Some((opp, *rng.pick(&[Kind::N, Kind::B, Kind::R, Kind::Q])));
            out.push(("ep-enemy-nonpawn", q));
        }
        // target square occupied
        let mut q = p.clone();
        q.ep = Some(f as u8);
        if !matches!(q.board[sq(f, land) as usize], Some((_, Kind::K))) && !matches!(q.board[sq(f, target) as usize], Some((_, Kind::K))) {
            q.board[sq(f, land) as usize] = Some((opp, Kind::P));
            q.board[sq(f, target) as usize] = Some((if rng.chance(1, 2) { opp } else { p.turn }, *rng.pick(&[Kind::N, Kind::P, Kind::B])));
            out.push(("ep-target-occupied", q));
        }
    }
    // 5. side not to move left in check by each piece kind
    {
        let opp = p.turn.flip();
        let ok = p.king_sq(opp).unwrap();
        let (kf, kr) = (file_of(ok), rank_of(ok));
        let mut cands: Vec<(Kind, Sq, &'static str)> = Vec::new();
        for (df, dr) in [(1, 2), (2, 1), (-1, 2), (-2, 1), (1, -2), (2, -1), (-1, -2), (-2, -1)] {
            if on_board(kf + df, kr + dr) {
                cands.push((Kind::N, sq(kf + df, kr + dr), "opponent-in-check-by-knight"));
            }
        }
        for df in [-1, 1] {
            let r = kr - p.turn.fwd();
            if on_board(kf + df, r) && (1..=6).contains(&r) {
                cands.push((Kind::P, sq(kf + df, r), "opponent-in-check-by-pawn"));
            }
        }
        for (df, dr, k, name) in [
            (1, 0, Kind::R, "opponent-in-check-by-rook"),
            (0, 1, Kind::R, "opponent-in-check-by-rook"),
            (-1, 0, Kind::Q, "opponent-in-check-by-queen"),
            (1, 1, Kind::B, "opponent-in-check-by-bishop"),
            (-1, -1, Kind::Q, "opponent-in-check-by-queen"),
            (-1, 1, Kind::B, "opponent-in-check-by-bishop"),
            (0, -1, Kind::R, "opponent-in-check-by-rook"),
        ] {
            // slide to the first occupied square or the edge; use the last empty square
            let (mut f, mut r) = (kf + df, kr + dr);
            let mut lastfree = None;
            while on_board(f, r) && p.board[sq(f, r) as usize].is_none() {
                lastfree = Some(sq(f, r));
                f += df;
                r += dr;
            }
            if let Some(s) = lastfree {
                cands.push((k, s, name));
            }
        }
        rng.shuffle(&mut cands);
        for (k, s, name) in cands.into_iter().take(3) {
            if p.board[s as usize].is_none() {
                let mut q = p.clone();
                q.board[s as usize] = Some((p.turn, k));
                if q.count(p.turn) <= 16 && q.attacked(ok, p.turn) {
                    out.push((name, q));
                }
            }
        }
        // adjacent kings
        for (df, dr) in [(1, 0), (0, 1), (1, 1), (-1, 0)] {
            if on_board(kf + df, kr + dr) && p.board[sq(kf + df, kr + dr) as usize].is_none() {
                let mut q = p.clone();
                let mk = q.king_sq(p.turn).unwrap();
                q.board[mk as usize] = None;
                q.board[sq(kf + df, kr + dr) as usize] = Some((p.turn, Kind::K));
                q.castle = [false; 4];
                out.push(("opponent-in-check-by-king", q));
                break;
            }
        }
    }
    out
}

/// Systematic near-misses on the squares an acceptance condition looks at: for every castling right
/// the home corner and the king's home square are given every possible content except the required
/// one (including the ENEMY king standing on e1/e8), and for every e.p. file the victim square and
/// the target square are given every possible content.  Built on small synthetic bases; the uniform
/// oracle (accepted => playable) judges the outcome.
pub fn critical_square_near_misses() -> Vec<(&'static str, Position)> {
    let mut out = Vec::new();
    let non_king = [Kind::P, Kind::N, Kind::B, Kind::R, Kind::Q];
    for me in [Col::W, Col::B] {
        let opp = me.flip();
        let hr = me.home_rank();
        let far = opp.home_rank();
        for (side_idx, rf) in [(0usize, 7i32), (1, 0)] {
            let idx = if me == Col::W { side_idx } else { 2 + side_idx };
            for turn in [Col::W, Col::B] {
                let mut base = Position::empty();
                base.turn = turn;
                base.board[sq(4, hr) as usize] = Some((me, Kind::K));
                base.board[sq(rf, hr) as usize] = Some((me, Kind::R));
                base.board[sq(if rf == 7 { 1 } else { 6 }, far) as usize] = Some((opp, Kind::K));
                base.castle[idx] = true;
                // (i) the corner holds anything but the own rook
                for content in [None, Some(me), Some(opp)] {
                    for k in non_king {
                        let mut q = base.clone();
                        q.board[sq(rf, hr) as usize] = content.map(|c| (c, k));
                        if content == Some(me) && k == Kind::R {
                            continue;
                        }
                        if (k == Kind::P) && content.is_some() {
                            // pawns on a back rank are accepted by the parser; keep them, it is the
                            // right that must be refused
                        }
                        out.push(("corner-content-with-right", q));
                        if content.is_none() {
                            break;
                        }
                    }
                }
                // (ii) the king's home square holds anything but the own king (own king elsewhere)
                for king_to in [sq(3, (hr - 1).abs().min(6).max(1)), sq(2, if hr == 0 { 2 } else { 5 })] {
                    for content in [None, Some(me), Some(opp)] {
                        for k in [Kind::P, Kind::N, Kind::B, Kind::R, Kind::Q, Kind::K] {
                            let mut q = base.clone();
                            q.board[sq(4, hr) as usize] = None;
                            q.board[king_to as usize] = Some((me, Kind::K));
                            match (content, k) {
                                (None, _) => {}
                                (Some(c), Kind::K) => {
                                    if c == me {
                                        continue;
                                    }
                                    // the ENEMY king stands on the home square
                                    for s in 0..64usize {
                                        if q.board[s] == Some((opp, Kind::K)) {
                                            q.board[s] = None;
                                        }
                                    }
                                    q.board[sq(4, hr) as usize] = Some((opp, Kind::K));
                                    // optionally shield it from the home rook
                                    let mut q2 = q.clone();
                                    let shield = sq(if rf == 7 { 6 } else { 1 }, hr);
                                    q2.board[shield as usize] = Some((me, Kind::N));
                                    out.push(("enemy-king-on-home-square-with-right", q2));
                                }
                                (Some(c), k) => q.board[sq(4, hr) as usize] = Some((c, k)),
                            }
                            out.push((if k == Kind::K && content == Some(opp) { "enemy-king-on-home-square-with-right" } else { "king-home-content-with-right" }, q));
                            if content.is_none() {
                                break;
                            }
                        }
                    }
                }
            }
        }
    }
    // e.p.: victim square and target square contents, every file, both sides to move
    for turn in [Col::W, Col::B] {
        let opp = turn.flip();
        let land = opp.pawn_start_rank() + 2 * opp.fwd();
        let target = land - opp.fwd();
        for f in 0..8i32 {
            let mut base = Position::empty();
            base.turn = turn;
            base.ep = Some(f as u8);
            // kings far from the action, on different files/ranks from the e.p. squares
            let kf = if f < 4 { 7 } else { 0 };
            base.board[sq(kf, turn.home_rank()) as usize] = Some((turn, Kind::K));
            base.board[sq(kf, opp.home_rank()) as usize] = Some((opp, Kind::K));
            base.board[sq(f, land) as usize] = Some((opp, Kind::P));
            for content in [None, Some(turn), Some(opp)] {
                for k in non_king {
                    // victim square
                    let mut q = base.clone();
                    q.board[sq(f, land) as usize] = content.map(|c| (c, k));
                    if !(content == Some(opp) && k == Kind::P) {
                        out.push(("ep-victim-square-content", q));
                    }
                    // target square (victim pawn in place)
                    if let Some(c) = content {
                        let mut q = base.clone();
                        q.board[sq(f, target) as usize] = Some((c, k));
                        out.push(("ep-target-square-content", q));
                    }
                    if content.is_none() {
                        break;
                    }
                }
            }
            // the side NOT to move is in check by a slider whose line passes exactly through the
            // (empty) e.p. target square - along the target's rank and both diagonals
            for (dx, dy) in [(1, 0), (1, 1), (1, -1)] {
                for (a, b) in [(1, 1), (1, 2), (2, 1), (2, 3), (3, 2)] {
                    for swap in [false, true] {
                        let (ka, sa) = if swap { (-(a as i32), b as i32) } else { (a as i32, -(b as i32)) };
                        let (kx, ky) = (f + dx * ka, target + dy * ka);
                        let (sx, sy) = (f + dx * sa, target + dy * sa);
                        if !on_board(kx, ky) || !on_board(sx, sy) {
                            continue;
                        }
                        let mut q = base.clone();
                        for s in 0..64usize {
                            if q.board[s] == Some((opp, Kind::K)) {
                                q.board[s] = None;
                            }
                        }
                        if q.board[sq(kx, ky) as usize].is_some() || q.board[sq(sx, sy) as usize].is_some() {
                            continue;
                        }
                        q.board[sq(kx, ky) as usize] = Some((opp, Kind::K));
                        let slider = if dy == 0 { if (a + b) % 2 == 0 { Kind::R } else { Kind::Q } } else if (a + b) % 2 == 0 { Kind::B } else { Kind::Q };
                        q.board[sq(sx, sy) as usize] = Some((turn, slider));
                        out.push(("opponent-in-check-through-ep-target", q));
                    }
                }
            }
            // a king on the target square
            for c in [turn, opp] {
                let mut q = base.clone();
                for s in 0..64usize {
                    if q.board[s] == Some((c, Kind::K)) {
                        q.board[s] = None;
                    }
                }
                q.board[sq(f, target) as usize] = Some((c, Kind::K));
                out.push(("ep-target-square-content", q));
            }
        }
    }
    out
}

/// e.p. field text corruptions: every square name and some garbage in the e.p. field.
pub fn ep_text_variants(rng: &mut Rng, p: &Position) -> Vec<String> {
    let fen = p.to_fen();
    let parts: Vec<&str> = fen.split(' ').collect();
    let mut out = Vec::new();
    for _ in 0..4 {
        let s = rng.below(64) as u8;
        out.push(format!("{} {} {} {} {} {}", parts[0], parts[1], parts[2], sq_name(s), parts[4], parts[5]));
    }
    for g in ["--", "e", "3", "e33", "E6", "e 6", "a0", "h9", "", "–"] {
        out.push(format!("{} {} {} {} {} {}", parts[0], parts[1], parts[2], g, parts[4], parts[5]));
    }
    out
}

/// Random builder sequences.
pub fn builder_fuzz(c: &mut Collector, rng: &mut Rng, seedpos: Option<&Position>) {
    c.eval();
    let mut b = Board::builder();
    let mut ops: Vec<String> = Vec::new();
    if let Some(p) = seedpos {
        for s in 0..64u8 {
            if let Some((cc, k)) = p.board[s as usize] {
                let _ = b.place(pos(s), col(cc), kind(k));
                ops.push(format!("place {} {:?} {:?}", sq_name(s), cc, k));
            }
        }
        b.turn(col(p.turn));
        ops.push(format!("turn {:?}", p.turn));
    }
    let n = rng.range(0, 24);
    for _ in 0..n {
        match rng.below(10) {
            0..=4 => {
                let s = rng.below(64) as u8;
                let cc = if rng.chance(1, 2) { Col::W } else { Col::B };
                let k = *rng.pick(&[Kind::P, Kind::P, Kind::N, Kind::B, Kind::R, Kind::Q, Kind::K]);
                let r = b.place(pos(s), col(cc), kind(k));
                ops.push(format!("place {} {:?} {:?} -> {}", sq_name(s), cc, k, if r.is_ok() { "ok" } else { "occupied" }));
            }
            5 | 6 => {
                let s = rng.below(64) as u8;
                b.remove(pos(s));
                ops.push(format!("remove {}", sq_name(s)));
            }
            7 => {
                let t = if rng.chance(1, 2) { Col::W } else { Col::B };
                b.turn(col(t));
                ops.push(format!("turn {t:?}"));
            }
            8 => {
                let f = if rng.chance(1, 5) { None } else { Some(rng.below(8) as u8) };
                b.enpassant(f.map(|x| chess_bitboard::File::from_u8(x).unwrap()));
                ops.push(format!("enpassant {f:?}"));
            }
            _ => {
                let h = *rng.pick(&[0u16, 1, 50, 99, 100, 101, 9999, 65534, 65535]);
                let fl = *rng.pick(&[0u16, 1, 9999, 65534, 65535]);
                b.half_move_clock(h);
                b.full_move_clock(fl);
                ops.push(format!("clocks {h} {fl}"));
            }
        }
    }
    c.journal(&format!("builder {}", ops.join("; ")));
    c.distinct(fnv(ops.join(";").as_bytes()));
    let r = catch_unwind(AssertUnwindSafe(|| b.build()));
    match r {
        Err(_) => c.violation("builder-panicked", "build", ops.join("; "), obj().set("ops", ops.clone())),
        Ok(Err(e)) => {
            c.count("builder-rejected");
            c.tag(&format!("builder-err:{e:?}"));
        }
        Ok(Ok(board)) => {
            c.count("builder-accepted");
            judge_board(c, &board, &format!("builder [{}]", ops.join("; ")), obj().set("ops", ops.clone()), "builder");
        }
    }
}

pub struct C06 {
    pub nodes: u64,
    pub mutations_per_node: usize,
}

impl Oracle for C06 {
    fn node(&mut self, c: &mut Collector, n: &Node, rng: &mut Rng) {
        self.nodes += 1;
        // (d) acceptance side: the canonical FEN of a legally reached position must be accepted
        let fen = n.model.to_fen();
        if n.model.half <= 9999 && n.model.full <= 9999 {
            let before = c.violation_total;
            let r = judge_bytes(c, fen.as_bytes(), "reached-position");
            if r.is_none() && c.violation_total == before {
                if reachable_family(n.family) {
                    c.violation(
                        "reachable-position-rejected",
                        if n.model.ep.is_some() { "ep" } else { "no-ep" },
                        format!("canonical FEN {fen:?} of a position reached by legal play was rejected"),
                        n.replay(),
                    );
                } else {
                    c.count("unreachable-family-fen-rejected");
                }
            }
        }
        // also what the writer itself prints
        let written = n.real.to_string();
        if written != fen {
            judge_bytes(c, written.as_bytes(), "writer-output");
        }
        // (a) grammar-aware mutations of this FEN
        for _ in 0..self.mutations_per_node {
            let m = mutate(rng, fen.as_bytes());
            judge_bytes(c, &m, "mutation");
        }
        // (b) semantic near-misses
        if self.nodes % 2 == 0 {
            for (kind, q) in semantic_near_misses(rng, n.model) {
                let bad = q.c06_ok().is_err();
                let before_acc = c.counters.get("accepted").copied().unwrap_or(0);
                judge_bytes(c, q.to_fen().as_bytes(), kind);
                let accepted = c.counters.get("accepted").copied().unwrap_or(0) > before_acc;
                c.tag(&format!(
                    "near-miss:{kind}:{}",
                    match (bad, accepted) {
                        (true, false) => "unplayable-rejected",
                        (true, true) => "UNPLAYABLE-ACCEPTED",
                        (false, true) => "still-playable-accepted",
                        (false, false) => "still-playable-rejected",
                    }
                ));
            }
            for s in ep_text_variants(rng, n.model) {
                judge_bytes(c, s.as_bytes(), "ep-field-text");
            }
        }
        // builder
        if self.nodes % 4 == 0 {
            let seeded = rng.chance(2, 3);
            builder_fuzz(c, rng, if seeded { Some(n.model) } else { None });
        }
        if c.want_sample() && self.nodes % 97 == 0 {
            let m = mutate(rng, fen.as_bytes());
            c.sample(obj().set("base", fen.as_str()).set("mutated_input", bytes_repr(&m)));
        }
    }
}

/// (c) uniformly random bytes and random strings over the FEN alphabet, lengths 0-120.
pub fn random_bytes_stratum(c: &mut Collector, rng: &mut Rng, n: u64) {
    for i in 0..n {
        let len = rng.below(121) as usize;
        let v: Vec<u8> = if i % 2 == 0 {
            (0..len).map(|_| rng.below(256) as u8).collect()
        } else {
            (0..len).map(|_| *rng.pick(ALPHABET)).collect()
        };
        judge_bytes(c, &v, "random-bytes");
    }
    // systematic critical-square near-misses
    for (kind, q) in critical_square_near_misses() {
        let bad = q.c06_ok().is_err();
        let before_acc = c.counters.get("accepted").copied().unwrap_or(0);
        judge_bytes(c, q.to_fen().as_bytes(), kind);
        let accepted = c.counters.get("accepted").copied().unwrap_or(0) > before_acc;
        c.tag(&format!("critical-square:{kind}:{}", match (bad, accepted) {
            (true, false) => "unplayable-rejected",
            (true, true) => "UNPLAYABLE-ACCEPTED",
            (false, true) => "playable-accepted",
            (false, false) => "playable-rejected",
        }));
    }
    // a handful of fixed edge inputs
    for s in [
        &b""[..],
        b" ",
        b"8/8/8/8/8/8/8/8 w - - 0 0",
        b"k7/8/8/8/8/8/8/K7 w - - 0 0",
        b"k7/8/8/8/8/8/8/K7 w - - 0 0 ",
        b"k7/8/8/8/8/8/8/K7  w  -  -  0  0",
        b"k78888888K7 w - - 0 0",
        b"k7/8/8/8/8/8/8/K7 w KQkq - 0 0",
        b"k7/8/8/8/8/8/8/K7 w - - 99999 0",
        b"k7/8/8/8/8/8/8/K7 w - - 0 65536",
        b"k7/8/8/8/8/8/8/K7/ w - - 0 0",
        b"k7/8/8/8/8/8/8/K7/8 w - - 0 0",
        b"9/8/8/8/8/8/8/K6k w - - 0 0",
        b"k7/8/8/8/8/8/8/K8 w - - 0 0",
        b"4k3/8/8/8/8/8/8/4K3 w K - 0 1",
        b"4k3/8/8/8/8/8/8/4K2r b - - 0 1",
    ] {
        judge_bytes(c, s, "fixed-edge");
    }
}
