//! C10: the move iterator honours its size and filtering contracts (DESIGN Appendix A.2).

use crate::posmon::{Node, Oracle};
use crate::real::{mv, mv_back, pos};
use refmodel::report::Collector;
use chess_bitboard::BitBoard;
use chess_movegen::Board;
use refmodel::json::obj;
use refmodel::rng::{fnv, Rng};
use refmodel::*;
use std::collections::BTreeSet;

#[derive(Clone)]
struct Model {
    remaining: BTreeSet<Mv>,
    mask: u64,
}

impl Model {
    fn visible(&self) -> Vec<Mv> {
        self.remaining.iter().copied().filter(|m| self.mask & (1u64 << m.to) != 0).collect()
    }
}

fn mask_str(m: u64) -> String {
    format!("{m:#018x}")
}

fn class_of(p: &Position, m: Mv) -> &'static str {
    if m.promo.is_some() {
        "promotion"
    } else if p.is_ep_capture(m) {
        "ep"
    } else {
        "other"
    }
}

#[derive(Clone, Debug)]
pub enum Op {
    Next,
    Len,
    IsEmpty,
    SizeHint,
    SetMask(u64),
    Remove(u64),
    RemoveMove(Mv),
    Clone,
    Drain,
    Count,
}

impl Op {
    fn text(&self) -> String {
        match self {
            Op::Next => "next".into(),
            Op::Len => "len".into(),
            Op::IsEmpty => "is_empty".into(),
            Op::SizeHint => "size_hint".into(),
            Op::SetMask(m) => format!("set_mask({})", mask_str(*m)),
            Op::Remove(m) => format!("remove({})", mask_str(*m)),
            Op::RemoveMove(m) => format!("remove_move({})", m.uci()),
            Op::Clone => "clone".into(),
            Op::Drain => "drain".into(),
            Op::Count => "count".into(),
        }
    }
    fn kind(&self) -> &'static str {
        match self {
            Op::Next => "next",
            Op::Len => "len",
            Op::IsEmpty => "is_empty",
            Op::SizeHint => "size_hint",
            Op::SetMask(_) => "set_mask",
            Op::Remove(_) => "remove",
            Op::RemoveMove(_) => "remove_move",
            Op::Clone => "clone",
            Op::Drain => "drain",
            Op::Count => "count",
        }
    }
    pub fn parse(s: &str) -> Option<Op> {
        let arg = |s: &str| -> Option<String> { Some(s[s.find('(')? + 1..s.rfind(')')?].to_string()) };
        let hexv = |t: String| u64::from_str_radix(t.trim_start_matches("0x"), 16).ok();
        Some(match s.split('(').next()? {
            "next" => Op::Next,
            "len" => Op::Len,
            "is_empty" => Op::IsEmpty,
            "size_hint" => Op::SizeHint,
            "clone" => Op::Clone,
            "drain" => Op::Drain,
            "count" => Op::Count,
            "set_mask" => Op::SetMask(hexv(arg(s)?)?),
            "remove" => Op::Remove(hexv(arg(s)?)?),
            "remove_move" => Op::RemoveMove(Mv::parse_uci(&arg(s)?)?),
            _ => return None,
        })
    }
}

pub struct Failure {
    pub kind: &'static str,
    pub detail: String,
    pub at: usize,
    pub move_class: &'static str,
}

/// Execute an op list against a fresh iterator and the model; stop at the first divergence.
/// `initial_mask` = Some(M0) starts from legals_masked(M0).
/// What a `legals_masked(M0)` iterator owes after a later, wider `set_mask(M1)` can be read two ways:
/// *confined* - it ranges over the moves into M0 only, so M1 shows remaining ∩ M0 ∩ M1; or *literal* -
/// "restricting an existing iterator to a mask yields exactly the not-yet-yielded legal moves whose
/// destination lies in the mask", i.e. remaining ∩ M1 whatever M0 was. A history is a violation only
/// if it fails under BOTH readings (an iterator that shows some moves outside M0 but not all of them
/// satisfies neither).
pub fn execute(board: &Board, p: &Position, legal: &[Mv], initial_mask: Option<u64>, ops: &[Op], stats: &mut dyn FnMut(&str)) -> Option<Failure> {
    let confined = execute_reading(board, p, legal, initial_mask, ops, stats, false);
    if confined.is_none() || initial_mask.is_none() {
        return confined;
    }
    let mut nop = |_: &str| {};
    execute_reading(board, p, legal, initial_mask, ops, &mut nop, true)?;
    let mut f = confined?;
    f.detail = format!("{} (and the history also fails if a later mask is read as reaching beyond the generation mask)", f.detail);
    Some(f)
}

fn execute_reading(board: &Board, p: &Position, legal: &[Mv], initial_mask: Option<u64>, ops: &[Op], stats: &mut dyn FnMut(&str), literal: bool) -> Option<Failure> {
    let mut real = match initial_mask {
        None => board.legals(),
        Some(m) => board.legals_masked(BitBoard::from_u64(m)),
    };
    let m0 = initial_mask.unwrap_or(!0u64);
    let mut model = Model {
        remaining: legal.iter().copied().filter(|m| literal || m0 & (1u64 << m.to) != 0).collect(),
        mask: m0,
    };
    let all: BTreeSet<Mv> = legal.iter().copied().collect();
    let mut removed: BTreeSet<Mv> = BTreeSet::new();
    let mut yielded: BTreeSet<Mv> = BTreeSet::new();
    // forks created by clone: continue with them after the main line
    let mut forks = Vec::new();
    let mut i = 0usize;
    let mut lines_left = 1usize;
    loop {
        while i < ops.len() {
            let op = &ops[i];
            stats(op.kind());
            let vis = model.visible();
            let fail = |kind: &'static str, detail: String, mc: &'static str| Some(Failure { kind, detail, at: i, move_class: mc });
            match op {
                Op::Next => {
                    let got = real.next().map(mv_back);
                    match got {
                        None => {
                            if !vis.is_empty() {
                                return fail(
                                    "early-stop",
                                    format!("next() = None while {} move(s) remain under the mask, e.g. {}", vis.len(), vis[0].uci()),
                                    class_of(p, vis[0]),
                                );
                            }
                        }
                        Some(m) => {
                            if !all.contains(&m) {
                                return fail("foreign-move", format!("next() yielded {} which is not legal", m.uci()), class_of(p, m));
                            }
                            if model.mask & (1u64 << m.to) == 0 {
                                return fail("masked-out-yield", format!("next() yielded {} whose destination is outside the mask", m.uci()), class_of(p, m));
                            }
                            if removed.contains(&m) {
                                return fail("removed-move-yielded", format!("next() yielded {} after it was removed", m.uci()), class_of(p, m));
                            }
                            if yielded.contains(&m) {
                                return fail("duplicate-yield", format!("next() yielded {} a second time", m.uci()), class_of(p, m));
                            }
                            if !model.remaining.contains(&m) {
                                return fail("foreign-move", format!("next() yielded {} outside the initial mask", m.uci()), class_of(p, m));
                            }
                            model.remaining.remove(&m);
                            yielded.insert(m);
                        }
                    }
                }
                Op::Len => {
                    let l = real.len();
                    if l != vis.len() {
                        let mc = if vis.iter().any(|m| m.promo.is_some()) { "promotion" } else if vis.iter().any(|m| p.is_ep_capture(*m)) { "ep" } else { "other" };
                        return fail("len-mismatch", format!("len() = {l}, {} move(s) remain under the mask", vis.len()), mc);
                    }
                }
                Op::IsEmpty => {
                    let e = real.is_empty();
                    if e != vis.is_empty() {
                        return fail("is_empty-mismatch", format!("is_empty() = {e}, {} move(s) remain under the mask", vis.len()), "other");
                    }
                }
                Op::SizeHint => {
                    let h = real.size_hint();
                    if h != (vis.len(), Some(vis.len())) {
                        let mc = if vis.iter().any(|m| m.promo.is_some()) { "promotion" } else { "other" };
                        return fail("len-mismatch", format!("size_hint() = {h:?}, {} move(s) remain under the mask", vis.len()), mc);
                    }
                }
                Op::SetMask(m) => {
                    real.set_mask(BitBoard::from_u64(*m));
                    model.mask = *m;
                }
                Op::Remove(m) => {
                    real.remove(BitBoard::from_u64(*m));
                    let gone: Vec<Mv> = model.remaining.iter().copied().filter(|x| m & (1u64 << x.to) != 0).collect();
                    for g in gone {
                        model.remaining.remove(&g);
                        removed.insert(g);
                    }
                }
                Op::RemoveMove(m) => {
                    let _ = real.remove_move(mv(*m));
                    if model.remaining.remove(m) {
                        removed.insert(*m);
                    }
                }
                Op::Clone => {
                    forks.push((real.clone(), model.clone(), removed.clone(), yielded.clone(), i + 1));
                }
                Op::Count => {
                    let n = real.clone().count();
                    if n != vis.len() {
                        return fail("len-mismatch", format!("count() = {n}, {} move(s) remain under the mask", vis.len()), "other");
                    }
                    // the other Iterator methods must walk the same moves as repeated next() on a clone
                    let drained: Vec<Mv> = real.clone().map(mv_back).collect();
                    let folded = real.clone().fold(0usize, |k, _| k + 1);
                    let last = real.clone().last().map(mv_back);
                    if folded != drained.len() || last != drained.last().copied() {
                        return fail(
                            "len-mismatch",
                            format!("fold visits {folded} moves and last() = {:?}, but next() on a clone yields {} moves ending with {:?}", last.map(|m| m.uci()), drained.len(), drained.last().map(|m| m.uci())),
                            "other",
                        );
                    }
                    for k in [0usize, 1, drained.len().saturating_sub(1), drained.len(), drained.len() + 1] {
                        let mut it = real.clone();
                        let got = it.nth(k).map(mv_back);
                        let after = it.next().map(mv_back);
                        if got != drained.get(k).copied() || after != drained.get(k + 1).copied() {
                            return fail(
                                "len-mismatch",
                                format!("nth({k}) = {:?} then next() = {:?}, but next() on a clone yields {:?}", got.map(|m| m.uci()), after.map(|m| m.uci()), drained.iter().map(|m| m.uci()).collect::<Vec<_>>()),
                                "other",
                            );
                        }
                    }
                }
                Op::Drain => {
                    // exhaust under the current mask
                    let mut guard = 0;
                    loop {
                        guard += 1;
                        if guard > 400 {
                            return fail("non-terminating", "drain exceeded 400 next() calls".into(), "other");
                        }
                        let vis = model.visible();
                        match real.next().map(mv_back) {
                            None => {
                                if !vis.is_empty() {
                                    return fail(
                                        "early-stop",
                                        format!("drain ended while {} move(s) remain under the mask, e.g. {}", vis.len(), vis[0].uci()),
                                        class_of(p, vis[0]),
                                    );
                                }
                                break;
                            }
                            Some(m) => {
                                if !all.contains(&m) {
                                    return fail("foreign-move", format!("drain yielded {} which is not legal", m.uci()), class_of(p, m));
                                }
                                if model.mask & (1u64 << m.to) == 0 {
                                    return fail("masked-out-yield", format!("drain yielded {} outside the mask", m.uci()), class_of(p, m));
                                }
                                if removed.contains(&m) {
                                    return fail("removed-move-yielded", format!("drain yielded {} after it was removed", m.uci()), class_of(p, m));
                                }
                                if yielded.contains(&m) {
                                    return fail("duplicate-yield", format!("drain yielded {} a second time", m.uci()), class_of(p, m));
                                }
                                if !model.remaining.remove(&m) {
                                    return fail("foreign-move", format!("drain yielded {} outside the initial mask", m.uci()), class_of(p, m));
                                }
                                yielded.insert(m);
                            }
                        }
                    }
                }
            }
            i += 1;
        }
        lines_left -= 1;
        let _ = lines_left;
        match forks.pop() {
            Some((r, m, rem, yl, at)) => {
                real = r;
                model = m;
                removed = rem;
                yielded = yl;
                i = at;
                lines_left = 1;
            }
            None => break,
        }
    }
    None
}

fn random_mask(rng: &mut Rng, p: &Position, universe: u64) -> u64 {
    let enemy: u64 = (0..64u8).filter(|s| matches!(p.board[*s as usize], Some((c, _)) if c != p.turn)).map(|s| 1u64 << s).sum();
    let m = match rng.below(12) {
        0 => enemy,
        1 => !enemy,
        2 => 0x0101010101010101u64 << rng.below(8),
        3 => 0xffu64 << (8 * rng.below(8)),
        4 => 1u64 << rng.below(64),
        5 => !0u64,
        6 => 0,
        7 => rng.next_u64() & rng.next_u64(),
        8 => rng.next_u64() | rng.next_u64(),
        9 => 0xff000000000000ffu64,
        10 => {
            // a single destination of a legal move
            let l = p.legal_moves();
            if l.is_empty() { 0 } else { 1u64 << rng.pick(&l).to }
        }
        _ => rng.next_u64(),
    };
    m & universe
}

pub fn random_ops(rng: &mut Rng, p: &Position, legal: &[Mv], universe: u64, n: usize, avoid_triggers: bool) -> Vec<Op> {
    let _ = avoid_triggers;
    let mut ops = Vec::new();
    for _ in 0..n {
        let op = match rng.below(20) {
            0..=6 => Op::Next,
            7 | 8 => Op::Len,
            9 => Op::IsEmpty,
            10 => Op::SizeHint,
            11 | 12 | 13 => Op::SetMask(random_mask(rng, p, universe)),
            14 => Op::Remove(random_mask(rng, p, !0) & rng.next_u64()),
            15 | 16 => {
                if !legal.is_empty() && rng.chance(5, 6) {
                    Op::RemoveMove(*rng.pick(legal))
                } else {
                    Op::RemoveMove(Mv { from: rng.below(64) as u8, to: rng.below(64) as u8, promo: None })
                }
            }
            17 => Op::Clone,
            18 => Op::Count,
            _ => Op::Drain,
        };
        ops.push(op);
    }
    // finish by covering the board with successive masks: every remaining move exactly once
    match rng.below(4) {
        0 => {
            for f in 0..8 {
                ops.push(Op::SetMask((0x0101010101010101u64 << f) & universe));
                ops.push(Op::Drain);
            }
        }
        1 => {
            for r in 0..8 {
                ops.push(Op::SetMask((0xffu64 << (8 * r)) & universe));
                ops.push(Op::Drain);
            }
        }
        2 => {
            let a = rng.next_u64();
            ops.push(Op::SetMask(a & universe));
            ops.push(Op::Drain);
            ops.push(Op::SetMask(!a & universe));
            ops.push(Op::Drain);
        }
        _ => {
            ops.push(Op::SetMask(universe));
            ops.push(Op::Drain);
        }
    }
    ops.push(Op::Len);
    ops.push(Op::IsEmpty);
    ops
}

/// Shrink a failing op list: drop ops while the same kind of failure remains.
fn shrink(board: &Board, p: &Position, legal: &[Mv], im: Option<u64>, ops: &[Op], kind: &str) -> Vec<Op> {
    let fails = |o: &[Op]| -> bool {
        let mut nop = |_: &str| {};
        match execute(board, p, legal, im, o, &mut nop) {
            Some(f) => f.kind == kind,
            None => false,
        }
    };
    let mut cur: Vec<Op> = ops.to_vec();
    // truncate after the failing op
    let mut nop = |_: &str| {};
    if let Some(f) = execute(board, p, legal, im, &cur, &mut nop) {
        cur.truncate((f.at + 1).min(cur.len()));
    }
    let mut changed = true;
    let mut rounds = 0;
    while changed && rounds < 6 {
        changed = false;
        rounds += 1;
        let mut i = 0;
        while i < cur.len() {
            let mut t = cur.clone();
            t.remove(i);
            if fails(&t) {
                cur = t;
                changed = true;
            } else {
                i += 1;
            }
        }
    }
    cur
}

fn trigger_class(ops: &[Op]) -> String {
    let mut kinds: Vec<&str> = ops.iter().map(|o| o.kind()).collect();
    kinds.sort();
    kinds.dedup();
    kinds.join("+")
}

pub struct C10 {
    pub nodes: u64,
    pub histories_per_node: usize,
}

impl C10 {
    fn run_case(&mut self, c: &mut Collector, n: &Node, im: Option<u64>, mut ops: Vec<Op>, label: &str) {
        // every history ends by widening the mask to the whole (initial) universe and draining:
        // successive masks that together cover the board must yield every remaining move exactly
        // once, so anything still missing then shows up as an early stop of this final drain
        ops.push(Op::SetMask(im.unwrap_or(!0)));
        ops.push(Op::Drain);
        ops.push(Op::Len);
        ops.push(Op::IsEmpty);
        if im.is_some() {
            // and then the whole board: under either reading of a widened mask (see `execute`)
            ops.push(Op::SetMask(!0));
            ops.push(Op::Len);
            ops.push(Op::Drain);
            ops.push(Op::IsEmpty);
        }
        c.eval();
        c.count(&format!("histories:{label}"));
        c.add("ops", ops.len() as u64);
        c.distinct(fnv(format!("{}|{:?}|{}", n.id_hash(), im, ops.iter().map(|o| o.text()).collect::<Vec<_>>().join(";")).as_bytes()));
        let mut opcounts: Vec<&str> = Vec::new();
        let failure = {
            let mut st = |k: &str| {
                opcounts.push(match k {
                    "next" => "op:next",
                    "len" => "op:len",
                    "is_empty" => "op:is_empty",
                    "size_hint" => "op:size_hint",
                    "set_mask" => "op:set_mask",
                    "remove" => "op:remove",
                    "remove_move" => "op:remove_move",
                    "clone" => "op:clone",
                    "drain" => "op:drain",
                    _ => "op:count",
                })
            };
            execute(n.real, n.model, n.legal, im, &ops, &mut st)
        };
        for k in opcounts {
            c.count(k);
        }
        if let Some(f) = failure {
            let small = shrink(n.real, n.model, n.legal, im, &ops, f.kind);
            let mut nop = |_: &str| {};
            let f2 = execute(n.real, n.model, n.legal, im, &small, &mut nop);
            let (kind, detail, mc) = match f2 {
                Some(g) => (g.kind, g.detail, g.move_class),
                None => (f.kind, f.detail, f.move_class),
            };
            let optext: Vec<String> = small.iter().map(|o| o.text()).collect();
            c.violation(
                kind,
                &format!("{}:{}", trigger_class(&small), mc),
                format!(
                    "{} {}: ops [{}] -> {detail}",
                    n.model.to_fen(),
                    match im {
                        Some(m) => format!("legals_masked({})", mask_str(m)),
                        None => "legals()".into(),
                    },
                    optext.join(", ")
                ),
                n.replay().set("ops", optext).set("initial_mask", im.map(mask_str)).set("label", label),
            );
        }
    }
}

impl Oracle for C10 {
    fn node(&mut self, c: &mut Collector, n: &Node, rng: &mut Rng) {
        self.nodes += 1;
        if n.legal.iter().any(|m| m.promo.is_some()) {
            c.tag("position-with-promotion-entries");
        }
        if n.legal.iter().any(|m| n.model.is_ep_capture(*m)) {
            c.tag("position-with-ep-entry");
        }
        if n.legal.is_empty() {
            c.tag("position-without-moves");
        }
        let enemy: u64 = (0..64u8).filter(|s| matches!(n.model.board[*s as usize], Some((cc, _)) if cc != n.model.turn)).map(|s| 1u64 << s).sum();
        // 1. the engine's staged pattern with every legal move as "previous best"
        let every = if n.focus || self.nodes % 8 == 0 { 1 } else { 7 };
        for (i, m) in n.legal.iter().enumerate() {
            if i % every != (self.nodes as usize) % every {
                continue;
            }
            let ops = vec![
                Op::RemoveMove(*m),
                Op::SetMask(enemy),
                Op::IsEmpty,
                Op::Len,
                Op::Drain,
                Op::SetMask(!0),
                Op::Len,
                Op::Drain,
                Op::IsEmpty,
            ];
            self.run_case(c, n, None, ops, "engine-staged-pattern");
        }
        // the capture-extension pattern of the search: set_mask(enemy) then is_empty / drain
        self.run_case(c, n, None, vec![Op::SetMask(enemy), Op::IsEmpty, Op::Len, Op::Drain], "capture-extension-pattern");
        // 2. plain full iteration with size checks at every step
        let mut ops = Vec::new();
        for _ in 0..n.legal.len() + 1 {
            ops.push(Op::Len);
            ops.push(Op::SizeHint);
            ops.push(Op::IsEmpty);
            ops.push(Op::Next);
        }
        ops.push(Op::Len);
        self.run_case(c, n, None, ops, "plain-iteration");
        // 3. seeded op sequences
        for h in 0..self.histories_per_node {
            let masked = h % 3 == 2;
            let im = if masked { Some(random_mask(rng, n.model, !0)) } else { None };
            let universe = if masked && h % 2 == 0 { !0 } else { im.unwrap_or(!0) };
            let len = rng.range(1, 40) as usize;
            let ops = random_ops(rng, n.model, n.legal, universe, len, false);
            self.run_case(c, n, im, ops, if masked { "random-ops-legals_masked" } else { "random-ops-legals" });
        }
        // 4. partitions: 64 single squares / 8 files / 8 ranks
        if self.nodes % 4 == 0 || n.focus {
            let mut ops = Vec::new();
            for s in 0..64 {
                ops.push(Op::SetMask(1u64 << s));
                ops.push(Op::Len);
                ops.push(Op::Drain);
            }
            self.run_case(c, n, None, ops, "partition-64-squares");
        }
        if c.want_sample() && n.legal.len() > 3 && self.nodes % 50 == 0 {
            let ops = random_ops(rng, n.model, n.legal, !0, 8, false);
            c.sample(n.replay().set("ops", ops.iter().map(|o| o.text()).collect::<Vec<_>>()));
        }
        let _ = pos(0);
    }
}

/// Re-execute a recorded op list exactly.
pub fn replay(c: &mut Collector, r: &refmodel::json::J) -> Option<i32> {
    let ops: Vec<Op> = r.get("ops")?.as_arr()?.iter().filter_map(|x| x.as_str().and_then(Op::parse)).collect();
    let fen = r.get("node_fen")?.as_str()?;
    let p = Position::from_fen(fen).ok()?;
    let board = crate::real::parse(fen).ok()?;
    let im = r.get("initial_mask").and_then(|x| x.as_str()).and_then(|t| u64::from_str_radix(t.trim_start_matches("0x"), 16).ok());
    let legal = p.legal_moves();
    let mut nop = |_: &str| {};
    match execute(&board, &p, &legal, im, &ops, &mut nop) {
        Some(f) => {
            c.violation(f.kind, f.move_class, format!("{fen}: ops {:?} -> {}", ops.iter().map(|o| o.text()).collect::<Vec<_>>(), f.detail), r.clone());
        }
        None => println!("{fen}: {} recorded ops executed, iterator agrees with the model", ops.len()),
    }
    for v in &c.violations {
        println!("VIOLATION property=C10\n  {}/{}: {}", v.kind, v.signature, v.detail);
    }
    Some(if c.violation_total > 0 { 1 } else { 0 })
}
