//! mon-core: runtime monitors for C01-C07, C10-C14.
//!
//! usage: mon-core <cmd> [--tier quick|thorough] [--seed N] [--shard I] [--nshards N]
//!                       [--out result.json] [--journal file] [--scale X] [--replay file]
//! cmd: selftest | merge-hashes <files..> | C01 .. C14

mod apimon;
mod engmon;
mod fenmon;
mod itermon;
mod posmon;
mod real;
mod scoremon;

use posmon::{Oracle, Plan};
use refmodel::json::J;
use refmodel::report::{self, Collector};

pub struct Args {
    pub cmd: String,
    pub tier: String,
    pub seed: u64,
    pub shard: u64,
    pub nshards: u64,
    pub out: Option<String>,
    pub journal: Option<String>,
    pub scale: f64,
    pub replay: Option<String>,
    pub rest: Vec<String>,
}

fn parse_args() -> Args {
    let mut a = Args {
        cmd: String::new(),
        tier: "quick".into(),
        seed: 1,
        shard: 0,
        nshards: 1,
        out: None,
        journal: None,
        scale: 1.0,
        replay: None,
        rest: vec![],
    };
    let mut it = std::env::args().skip(1);
    a.cmd = it.next().unwrap_or_default();
    while let Some(x) = it.next() {
        match x.as_str() {
            "--tier" => a.tier = it.next().unwrap(),
            "--seed" => a.seed = it.next().unwrap().parse().unwrap(),
            "--shard" => a.shard = it.next().unwrap().parse().unwrap(),
            "--nshards" => a.nshards = it.next().unwrap().parse().unwrap(),
            "--out" => a.out = it.next(),
            "--journal" => a.journal = it.next(),
            "--scale" => a.scale = it.next().unwrap().parse().unwrap(),
            "--replay" => a.replay = it.next(),
            _ => a.rest.push(x),
        }
    }
    a
}

fn plan_for(prop: &str, a: &Args) -> Plan {
    let thorough = a.tier == "thorough";
    let s = a.scale;
    let walks = |q: f64, t: f64| ((if thorough { t } else { q }) * s).max(1.0) as u64;
    match prop {
        "C01" => Plan {
            crafted_ep_stride: if thorough { 1 } else { 4 },
            crafted_other: true,
            evasion_cases: if thorough { 40000 } else { 6000 },
            walks: walks(2500.0, 20000.0),
            max_plies: 200,
            tree_depth: if thorough { 3 } else { 0 },
            tree_roots: 40,
            shuffle_bias: 0,
            visit_every: 1,
        },
        "C02" => Plan {
            crafted_ep_stride: if thorough { 2 } else { 16 },
            crafted_other: true,
            evasion_cases: if thorough { 10000 } else { 2000 },
            walks: walks(800.0, 8000.0),
            max_plies: 200,
            tree_depth: if thorough { 2 } else { 0 },
            tree_roots: 40,
            shuffle_bias: 0,
            visit_every: 1,
        },
        "C03" => Plan {
            crafted_ep_stride: if thorough { 2 } else { 16 },
            crafted_other: true,
            evasion_cases: if thorough { 20000 } else { 4000 },
            walks: walks(2500.0, 20000.0),
            max_plies: 220,
            tree_depth: if thorough { 3 } else { 0 },
            tree_roots: 40,
            shuffle_bias: 0,
            visit_every: 1,
        },
        "C04" => Plan {
            crafted_ep_stride: if thorough { 4 } else { 32 },
            crafted_other: true,
            evasion_cases: 1000,
            walks: walks(2000.0, 20000.0),
            max_plies: 200,
            tree_depth: if thorough { 3 } else { 0 },
            tree_roots: 40,
            shuffle_bias: 30,
            visit_every: 1,
        },
        "C05" => Plan {
            crafted_ep_stride: if thorough { 4 } else { 32 },
            crafted_other: true,
            evasion_cases: 1000,
            walks: walks(2000.0, 20000.0),
            max_plies: 200,
            tree_depth: if thorough { 2 } else { 0 },
            tree_roots: 40,
            shuffle_bias: 0,
            visit_every: 1,
        },
        "C06" => Plan {
            crafted_ep_stride: if thorough { 8 } else { 64 },
            crafted_other: true,
            evasion_cases: 1000,
            walks: walks(600.0, 6000.0),
            max_plies: 160,
            tree_depth: 0,
            tree_roots: 0,
            shuffle_bias: 0,
            visit_every: 1,
        },
        "C10" => Plan {
            crafted_ep_stride: if thorough { 8 } else { 64 },
            crafted_other: true,
            evasion_cases: 1000,
            walks: walks(800.0, 8000.0),
            max_plies: 160,
            tree_depth: 0,
            tree_roots: 0,
            shuffle_bias: 0,
            visit_every: 1,
        },
        _ => panic!("no plan for {prop}"),
    }
}

fn finish(c: &Collector, a: &Args, extra: J) {
    let mut j = c.to_json();
    j.put("observe_debug_fallbacks", real::DEBUG_FALLBACKS.load(std::sync::atomic::Ordering::Relaxed));
    j.put("extra", extra);
    let text = j.dump();
    match &a.out {
        Some(p) => {
            std::fs::write(p, &text).expect("write result");
            c.write_hashes(&format!("{p}.hashes"));
        }
        None => println!("{text}"),
    }
}

/// Re-execute one recorded case (root FEN + moves) and print the comparison.
fn replay_position(c: &mut Collector, o: &mut dyn Oracle, path: &str) -> i32 {
    let text = std::fs::read_to_string(path).expect("read replay file");
    let j = J::parse(&text).expect("parse replay file");
    let r = j.get("replay").cloned().unwrap_or(J::Null);
    if c.prop == "C10" && r.get("ops").is_some() {
        if let Some(rc) = itermon::replay(c, &r) {
            return rc;
        }
    }
    if let Some(h) = r.get("input_hex").and_then(|x| x.as_str()) {
        let bytes = fenmon::unhex(h);
        fenmon::judge_bytes(c, &bytes, r.get("origin").and_then(|x| x.as_str()).unwrap_or("replay"));
        println!("replayed parse of {} bytes: {} violation(s)", bytes.len(), c.violation_total);
        for v in &c.violations {
            println!("VIOLATION property={} replay={path}\n  {}/{}: {}", c.prop, v.kind, v.signature, v.detail);
        }
        return if c.violation_total > 0 { 1 } else { 0 };
    }
    let fen = r.get("root_fen").or(r.get("fen")).and_then(|x| x.as_str()).map(|s| s.to_string());
    let Some(fen) = fen else {
        println!("replay file has no root_fen/fen; recorded detail:\n{}", j.get("detail").and_then(|d| d.as_str()).unwrap_or(""));
        return 2;
    };
    let root = match refmodel::Position::from_fen(&fen) {
        Ok(p) => p,
        Err(e) => {
            println!("cannot read root fen {fen:?}: {e}");
            return 2;
        }
    };
    let moves: Vec<refmodel::Mv> = r
        .get("moves")
        .and_then(|m| m.as_arr())
        .map(|a| a.iter().filter_map(|x| x.as_str().and_then(refmodel::Mv::parse_uci)).collect())
        .unwrap_or_default();
    let family = r.get("family").and_then(|x| x.as_str()).unwrap_or("corpus").to_string();
    posmon::FORCE_FOCUS.store(true, std::sync::atomic::Ordering::Relaxed);
    let mut rng = refmodel::rng::Rng::new(1);
    posmon::run_history(c, o, &mut rng, &family, &root, &moves, 0, 0, posmon::Visit::LastOnly);
    println!("replayed {} [{}]: {} violation(s)", fen, moves.iter().map(|m| m.uci()).collect::<Vec<_>>().join(" "), c.violation_total);
    for v in &c.violations {
        println!("VIOLATION property={} replay={path}\n  {}/{}: {}", c.prop, v.kind, v.signature, v.detail);
    }
    if c.violation_total > 0 { 1 } else { 0 }
}

fn main() {
    let a = parse_args();
    match a.cmd.as_str() {
        "selftest" => match refmodel::self_test(a.tier == "thorough") {
            Ok(n) => println!("refmodel self-test ok: {n} nodes agree with published perft counts"),
            Err(e) => {
                println!("refmodel self-test FAILED: {e}");
                std::process::exit(3);
            }
        },
        "merge-hashes" => {
            println!("{}", report::merge_hash_files(&a.rest));
        }
        "C01" | "C02" | "C03" | "C04" | "C05" | "C06" | "C10" => {
            // the model must agree with published numbers before it is allowed to judge anything
            if let Err(e) = refmodel::self_test(false) {
                println!("INCONCLUSIVE: reference model self-test failed: {e}");
                std::process::exit(3);
            }
            let mut c = Collector::new(&a.cmd, a.journal.as_deref());
            let plan = plan_for(&a.cmd, &a);
            let mut o: Box<dyn Oracle> = match a.cmd.as_str() {
                "C01" => Box::new(posmon::C01 { nodes: 0 }),
                "C02" => Box::new(posmon::C02 { nodes: 0 }),
                "C03" => Box::new(posmon::C03 { nodes: 0 }),
                "C04" => Box::new(posmon::C04 { nodes: 0, seen: Default::default(), key_table_done: false }),
                "C05" => Box::new(posmon::C05 { nodes: 0, std_done: false }),
                "C10" => Box::new(itermon::C10 { nodes: 0, histories_per_node: if a.tier == "thorough" { 12 } else { 6 } }),
                _ => Box::new(fenmon::C06 { nodes: 0, mutations_per_node: if a.tier == "thorough" { 24 } else { 10 } }),
            };
            if let Some(rp) = &a.replay {
                std::process::exit(replay_position(&mut c, o.as_mut(), rp));
            }
            posmon::run_plan(&mut c, o.as_mut(), a.seed, a.shard, a.nshards, &plan);
            if a.cmd == "C06" {
                let mut rng = refmodel::rng::Rng::new(refmodel::rng::mix3(a.seed, a.shard, 0xB17E5));
                let n = (if a.tier == "thorough" { 2_000_000.0 } else { 150_000.0 } * a.scale) as u64;
                fenmon::random_bytes_stratum(&mut c, &mut rng, n);
                for _ in 0..n / 20 {
                    fenmon::builder_fuzz(&mut c, &mut rng, None);
                }
            }
            finish(&c, &a, J::Null);
        }
        "C07" => {
            let mut c = Collector::new(&a.cmd, a.journal.as_deref());
            if let Some(rp) = &a.replay {
                let text = std::fs::read_to_string(rp).expect("read replay file");
                let j = J::parse(&text).expect("parse replay file");
                let r = j.get("replay").cloned().unwrap_or(J::Null);
                std::process::exit(apimon::replay(&mut c, &r));
            }
            let small = a.rest.iter().any(|x| x == "--small");
            let digest = apimon::c07(&mut c, a.seed, a.shard, a.nshards, a.tier == "thorough", small, a.scale);
            finish(&c, &a, refmodel::json::obj().set("digest", format!("{digest:016x}")).set("shard", a.shard));
        }
        "noop" => {}
        "evals-per-poll" => println!("{:.3}", engmon::evals_per_poll()),
        "C14" => {
            let mut c = Collector::new(&a.cmd, a.journal.as_deref());
            if let Some(rp) = &a.replay {
                let text = std::fs::read_to_string(rp).expect("read replay file");
                let j = J::parse(&text).expect("parse replay file");
                let r = j.get("replay").cloned().unwrap_or(J::Null);
                std::process::exit(scoremon::replay(&mut c, &r));
            }
            let small = a.rest.iter().any(|x| x == "--small");
            scoremon::c14(&mut c, a.seed, a.shard, a.nshards, a.tier == "thorough", small);
            finish(&c, &a, J::Null);
        }
        "C11" | "C12" | "C13" => {
            let mut c = Collector::new(&a.cmd, a.journal.as_deref());
            if let Some(rp) = &a.replay {
                let text = std::fs::read_to_string(rp).expect("read replay file");
                let j = J::parse(&text).expect("parse replay file");
                let r = j.get("replay").cloned().unwrap_or(J::Null);
                std::process::exit(engmon::replay(&mut c, &a.cmd, &r));
            }
            if let Err(e) = refmodel::self_test(false) {
                println!("INCONCLUSIVE: reference model self-test failed: {e}");
                std::process::exit(3);
            }
            let th = a.tier == "thorough";
            match a.cmd.as_str() {
                "C11" => engmon::c11(&mut c, a.seed, a.shard, a.nshards, th, a.scale),
                "C12" => engmon::c12(&mut c, a.seed, a.shard, a.nshards, th, a.scale),
                _ => engmon::c13(&mut c, a.seed, a.shard, a.nshards, th, a.scale),
            }
            finish(&c, &a, J::Null);
        }
        other => {
            eprintln!("unknown command {other:?}");
            std::process::exit(2);
        }
    }
}
