//! Position-history monitors: the shared walker and the oracles for C01-C05.

use crate::real::{self, moves_str, mv, mv_back, observe, partition_ok, pos, real_moves, snapshot};
use refmodel::report::Collector;
use refmodel::workload::{self, Crafted, Theme, THEMES};
use chess_movegen::{Board, ChessMove, GameState};
use refmodel::json::{obj, J};
use refmodel::rng::{fnv, mix3, Rng};
use refmodel::tags::{move_tags, position_tags};
use refmodel::*;
use std::collections::HashMap;
use std::hash::{Hash, Hasher};

pub struct Node<'a> {
    pub family: &'a str,
    pub root_fen: &'a str,
    pub moves: &'a [Mv],
    pub model: &'a Position,
    pub real: &'a Board,
    pub legal: &'a [Mv],
    /// crafted/endpoint nodes get the expensive exhaustive probes
    pub focus: bool,
}

impl Node<'_> {
    pub fn replay(&self) -> J {
        obj()
            .set("family", self.family)
            .set("root_fen", self.root_fen)
            .set("moves", self.moves.iter().map(|m| m.uci()).collect::<Vec<_>>())
            .set("node_fen", self.model.to_fen())
    }
    pub fn id_hash(&self) -> u64 {
        let mut h = std::collections::hash_map::DefaultHasher::new();
        self.model.identity().hash(&mut h);
        h.finish()
    }
}

pub trait Oracle {
    fn node(&mut self, c: &mut Collector, n: &Node, rng: &mut Rng);
    /// The real API refused a model-legal move during the walk.
    fn refused(&mut self, c: &mut Collector, _n: &Node, _m: Mv, _how: &str) {
        c.count("walk-resync-after-refusal");
    }
    /// The parser rejected the canonical FEN of a root (`reachable` = root is the start position
    /// or a corpus position, i.e. certainly a legitimate position).
    fn root_rejected(&mut self, c: &mut Collector, _fen: &str, _err: &str, _family: &str) {
        c.count("root-rejected-by-parser");
    }
    fn root_mismatch(&mut self, c: &mut Collector, _fen: &str, _detail: &str) {
        c.count("root-parse-mismatch");
    }
    /// The board produced by playing `_m` on `_n` does not show the position the model means
    /// (`_got` = what was observed, or why it could not be observed).  Called BEFORE the walk
    /// re-synchronises the real board from the model's FEN, i.e. with the board as it was moved.
    fn diverged(&mut self, _c: &mut Collector, _n: &Node, _m: Mv, _moved: &Board, _want: &Position, _got: Result<&Position, &str>) {}
}

pub fn move_class(p: &Position, m: Mv) -> &'static str {
    match p.board[m.from as usize] {
        None => "from-empty",
        Some((c, _)) if c != p.turn => "from-enemy",
        Some((_, k)) => {
            if k == Kind::P && file_of(m.from) != file_of(m.to) && p.board[m.to as usize].is_none() {
                "ep-capture"
            } else if k == Kind::K && (file_of(m.from) - file_of(m.to)).abs() == 2 {
                "castle"
            } else if m.promo.is_some() {
                "promotion"
            } else {
                match k {
                    Kind::K => "king",
                    Kind::P => "pawn",
                    Kind::N => "knight",
                    _ => "slider",
                }
            }
        }
    }
}

/// Play a history through the real API in lock-step with the model.
#[allow(clippy::too_many_arguments)]
pub fn run_history(
    c: &mut Collector,
    o: &mut dyn Oracle,
    rng: &mut Rng,
    family: &str,
    pre: &Position,
    forced: &[Mv],
    extra_plies: usize,
    shuffle_bias: u64,
    visit: Visit,
) {
    let root_fen = pre.to_fen();
    let mut real = match real::parse(&root_fen) {
        Ok(b) => b,
        Err(e) => {
            o.root_rejected(c, &root_fen, &e, family);
            return;
        }
    };
    match observe(&real) {
        Ok(p) if p == *pre => {}
        Ok(p) => {
            o.root_mismatch(c, &root_fen, &format!("parsed as {}", p.to_fen()));
            return;
        }
        Err(e) => {
            o.root_mismatch(c, &root_fen, &e);
            return;
        }
    }
    let mut model = pre.clone();
    let mut moves: Vec<Mv> = Vec::new();
    let mut prev_own: [Option<Mv>; 2] = [None, None];
    let total = forced.len() + extra_plies;
    for ply in 0..=total {
        let legal = model.legal_moves();
        let last = ply == total || legal.is_empty();
        let focus = (ply == forced.len() && !family.starts_with("walk") && family != "tree")
            || FORCE_FOCUS.load(std::sync::atomic::Ordering::Relaxed);
        let visit_here = match visit {
            Visit::All => true,
            Visit::Every(k) => focus || last || ply % k.max(1) == 0,
            Visit::LastOnly => ply == total,
        };
        if visit_here {
            let n = Node { family, root_fen: &root_fen, moves: &moves, model: &model, real: &real, legal: &legal, focus };
            c.journal(&format!("node {} {} [{}]", family, root_fen, moves_str(&moves)));
            // a panic inside a monitored call (debug assertion, overflow check, arrayvec capacity
            // assert ...) is a finding about the code under test; keep the shard going
            let r = std::panic::catch_unwind(std::panic::AssertUnwindSafe(|| o.node(c, &n, rng)));
            if let Err(p) = r {
                let msg = p.downcast_ref::<String>().cloned().or(p.downcast_ref::<&str>().map(|s| s.to_string())).unwrap_or_else(|| "panic".into());
                let short: String = msg.chars().take(120).collect();
                c.violation(
                    "monitored-call-panicked",
                    &short,
                    format!("{} [{}]: a call on this position panicked: {msg}", n.model.to_fen(), moves_str(&moves)),
                    n.replay(),
                );
            }
        }
        if last {
            break;
        }
        let m = if ply < forced.len() {
            forced[ply]
        } else {
            workload::choose_move(rng, &model, &legal, prev_own[model.turn.idx()], shuffle_bias)
        };
        prev_own[model.turn.idx()] = Some(m);
        if c.tags.len() < 400 {
            for t in move_tags(&model, m) {
                c.tag(t);
            }
        }
        let next_model = model.apply(m);
        // apply through one of the three checked operations, in rotation
        let rm = mv(m);
        let (applied, how) = match (ply + moves.len()) % 3 {
            0 => (real.move_new(rm), "move_new"),
            1 => {
                let mut b = real;
                (if b.move_mut(rm) { Some(b) } else { None }, "move_mut")
            }
            _ => {
                let mut out = Board::standard();
                (if real.move_into(rm, &mut out) { Some(out) } else { None }, "move_into")
            }
        };
        match applied {
            Some(b) => real = b,
            None => {
                let n = Node { family, root_fen: &root_fen, moves: &moves, model: &model, real: &real, legal: &legal, focus: false };
                o.refused(c, &n, m, how);
                match real::parse(&next_model.to_fen()) {
                    Ok(b) => real = b,
                    Err(_) => return,
                }
            }
        }
        // if the real board diverged from the model (a C02 matter), re-synchronise so that the
        // other monitors keep judging the position the model means
        let seen = observe(&real);
        match &seen {
            Ok(p) if *p == next_model => {}
            _ => {
                c.count("walk-resync-after-successor-divergence");
                {
                    let n = Node { family, root_fen: &root_fen, moves: &moves, model: &model, real: &real, legal: &legal, focus: false };
                    o.diverged(c, &n, m, &real, &next_model, seen.as_ref().map_err(|e| e.as_str()));
                }
                match real::parse(&next_model.to_fen()) {
                    Ok(b) => real = b,
                    Err(_) => return,
                }
            }
        }
        model = next_model;
        moves.push(m);
    }
}

/// Set by --replay: every visited node gets the exhaustive probes.
pub static FORCE_FOCUS: std::sync::atomic::AtomicBool = std::sync::atomic::AtomicBool::new(false);

#[derive(Clone, Copy, Debug)]
pub enum Visit {
    All,
    Every(usize),
    LastOnly,
}

/// Families whose roots are certainly legitimate game positions (standard start, well-known test
/// positions) - only for these is a parser rejection of the canonical FEN an alarm.
pub fn reachable_family(f: &str) -> bool {
    matches!(f, "corpus" | "walk-start" | "walk-corpus" | "tree")
}

/// Budget description for the position workload of one shard.
pub struct Plan {
    pub crafted_ep_stride: u64,
    pub crafted_other: bool,
    pub evasion_cases: usize,
    pub walks: u64,
    pub max_plies: usize,
    pub tree_depth: u32,
    pub tree_roots: usize,
    pub shuffle_bias: u64,
    pub visit_every: usize,
}

pub fn run_plan(c: &mut Collector, o: &mut dyn Oracle, seed: u64, shard: u64, nshards: u64, plan: &Plan) {
    // crafted families (seed independent)
    let mut crafted: Vec<Crafted> = Vec::new();
    if plan.crafted_ep_stride > 0 {
        workload::ep_family(shard, nshards, plan.crafted_ep_stride, &mut crafted);
    }
    if plan.crafted_ep_stride > 0 {
        let mut rng = Rng::new(0xF20E + shard);
        workload::ep_frozen_family(&mut rng, shard, nshards, plan.crafted_ep_stride.max(8), &mut crafted);
    }
    if plan.crafted_ep_stride > 0 {
        workload::ep_discovery_family(shard, nshards, (plan.crafted_ep_stride / 4).max(1), &mut crafted);
        workload::line_geometry_family(shard, nshards, (plan.crafted_ep_stride / 8).max(1), &mut crafted);
        let mut rng = Rng::new(0xD0B1 + shard);
        workload::double_pin_family(&mut rng, if plan.crafted_ep_stride <= 4 { 600 } else { 120 }, &mut crafted);
    }
    if plan.crafted_other {
        let mut all = Vec::new();
        workload::castle_family(&mut all);
        workload::promo_family(&mut all);
        workload::extremal_family(&mut all);
        workload::clock_terminal_family(&mut all);
        let mut rng = Rng::new(0xE7A5);
        workload::evasion_family(&mut rng, plan.evasion_cases, &mut all);
        for (i, cr) in all.into_iter().enumerate() {
            if i as u64 % nshards == shard {
                crafted.push(cr);
            }
        }
    }
    c.add("crafted-cases", crafted.len() as u64);
    let mut rng = Rng::new(mix3(seed, shard, 0xC4AF));
    for cr in &crafted {
        *c.counters.entry(format!("crafted:{}", cr.family)).or_insert(0) += 1;
        // short continuation after the crafted moves so that the e.p. capture / castling itself is
        // also played and its successor judged
        run_history(c, o, &mut rng, cr.family, &cr.pre, &cr.moves, 2, 0, Visit::All);
    }
    // corpus roots always visited once by shard 0, then walks
    let corpus = workload::corpus();
    if shard == 0 {
        for p in &corpus {
            if p.c06_ok().is_ok() {
                run_history(c, o, &mut rng, "corpus", p, &[], 0, 0, Visit::All);
            }
        }
    }
    // complete trees near the roots (thorough)
    if plan.tree_depth > 0 {
        let mut roots: Vec<Position> = corpus.iter().filter(|p| p.chess_root_ok().is_ok()).cloned().collect();
        roots.truncate(plan.tree_roots);
        for (i, r) in roots.iter().enumerate() {
            if i as u64 % nshards == shard {
                let mut path = Vec::new();
                tree(c, o, &mut rng, r, plan.tree_depth, &mut path);
            }
        }
    }
    for w in 0..plan.walks {
        let mut rng = Rng::new(mix3(seed, shard, w));
        let src = rng.below(10);
        let (family, mut root) = if src < 3 {
            ("walk-start", Position::standard())
        } else if src < 6 {
            let p = rng.pick(&corpus).clone();
            if p.chess_root_ok().is_err() {
                continue;
            }
            ("walk-corpus", p)
        } else {
            let theme = *rng.pick(&THEMES);
            match workload::random_placement(&mut rng, theme, false) {
                Some(p) => ("walk-random", p),
                None => continue,
            }
        };
        if family == "walk-corpus" && rng.chance(1, 3) {
            if root.ep.is_none() {
                root.half = *rng.pick(&[0u32, 1, 50, 95, 97, 98, 99, 100, 101, 999, 9998]);
            }
            root.full = *rng.pick(&[0u32, 1, 9, 10, 99, 100, 999, 1000, 9998]);
        }
        let plies = match rng.below(4) {
            0 => rng.range(1, 12),
            1 => rng.range(10, 60),
            _ => rng.range(20, plan.max_plies as i64),
        } as usize;
        let bias = if rng.chance(1, 4) { plan.shuffle_bias } else { 0 };
        c.count("walks");
        run_history(c, o, &mut rng, family, &root, &[], plies, bias, if plan.visit_every <= 1 { Visit::All } else { Visit::Every(plan.visit_every) });
    }
}

/// Complete tree: every history of length <= depth from `root` is observed.
fn tree(c: &mut Collector, o: &mut dyn Oracle, rng: &mut Rng, root: &Position, depth: u32, path: &mut Vec<Mv>) {
    // run the history for this path (visits only the endpoint to avoid re-judging prefixes)
    run_history(c, o, rng, "tree", root, path, 0, 0, Visit::LastOnly);
    c.count("tree-nodes");
    if depth == 0 {
        return;
    }
    let mut p = root.clone();
    for m in path.iter() {
        p = p.apply(*m);
    }
    for m in p.legal_moves() {
        path.push(m);
        tree(c, o, rng, root, depth - 1, path);
        path.pop();
    }
}

fn note_tags(c: &mut Collector, n: &Node) -> usize {
    let t = position_tags(n.model);
    for x in &t {
        c.tag(x);
    }
    if !t.is_empty() {
        c.distinct(n.id_hash());
    }
    t.len()
}

/// Seeded near-miss triples for legality probes: perturbations of legal moves and pseudo-legal
/// but illegal moves, plus random triples.
pub fn near_miss_triples(rng: &mut Rng, p: &Position, legal: &[Mv], n: usize) -> Vec<Mv> {
    let mut out = Vec::new();
    let pseudo = p.pseudo_moves();
    for m in &pseudo {
        if !legal.contains(m) {
            out.push(*m);
        }
    }
    rng.shuffle(&mut out);
    out.truncate(n / 2);
    let promos = [None, Some(Kind::Q), Some(Kind::R), Some(Kind::B), Some(Kind::N)];
    for _ in 0..n / 4 {
        if legal.is_empty() {
            break;
        }
        let m = *rng.pick(legal);
        let mut x = m;
        x.promo = *rng.pick(&promos);
        if x != m {
            out.push(x);
        }
        // same from, neighbouring to
        let t = (m.to as i64 + *rng.pick(&[-9i64, -8, -7, -1, 1, 7, 8, 9])).clamp(0, 63) as u8;
        out.push(Mv { from: m.from, to: t, promo: m.promo });
    }
    // castling variants and king steps even when there are no rights
    if let Some(k) = p.king_sq(p.turn) {
        for d in [-2i64, 2, -3, 3] {
            let t = k as i64 + d;
            if (0..64).contains(&t) {
                out.push(Mv::new(k, t as u8));
            }
        }
    }
    while out.len() < n {
        out.push(Mv { from: rng.below(64) as u8, to: rng.below(64) as u8, promo: *rng.pick(&promos) });
    }
    out
}

pub fn all_triples() -> Vec<Mv> {
    let promos = [None, Some(Kind::Q), Some(Kind::R), Some(Kind::B), Some(Kind::N)];
    let mut v = Vec::with_capacity(20480);
    for f in 0..64u8 {
        for t in 0..64u8 {
            for p in promos {
                v.push(Mv { from: f, to: t, promo: p });
            }
        }
    }
    v
}

// =========================================================================== C01

pub struct C01 {
    pub nodes: u64,
}

impl Oracle for C01 {
    fn node(&mut self, c: &mut Collector, n: &Node, rng: &mut Rng) {
        self.nodes += 1;
        c.eval();
        note_tags(c, n);
        let mut want: Vec<Mv> = n.legal.to_vec();
        want.sort();
        let got = real_moves(n.real);
        if got != want {
            // classify
            let mut dedup = got.clone();
            dedup.dedup();
            let extra: Vec<Mv> = dedup.iter().copied().filter(|m| !want.contains(m)).collect();
            let missing: Vec<Mv> = want.iter().copied().filter(|m| !dedup.contains(m)).collect();
            let (kind, cls) = if !extra.is_empty() {
                ("extra-move", move_class(n.model, extra[0]))
            } else if !missing.is_empty() {
                ("missing-move", move_class(n.model, missing[0]))
            } else {
                ("duplicate-move", "any")
            };
            c.violation(
                kind,
                cls,
                format!(
                    "{}: generator yields [{}], rules give [{}]; extra [{}] missing [{}]",
                    n.model.to_fen(),
                    moves_str(&got),
                    moves_str(&want),
                    moves_str(&extra),
                    moves_str(&missing)
                ),
                n.replay().set("check", "move-set"),
            );
        }
        if c.want_sample() && !n.moves.is_empty() {
            c.sample(n.replay().set("legal_moves", want.len()));
        }
        // generation restricted to a destination mask must yield exactly the legal moves into it:
        // single destinations of the special moves, a file, a rank and two seeded masks
        {
            let mut masks: Vec<u64> = Vec::new();
            for m in n.legal.iter().filter(|m| n.model.is_castle(**m) || n.model.is_ep_capture(**m) || m.promo.is_some()).take(4) {
                masks.push(1u64 << m.to);
            }
            if !n.legal.is_empty() {
                let m = *rng.pick(n.legal);
                masks.push(1u64 << m.to);
                masks.push(0x0101010101010101u64 << file_of(m.to));
                masks.push(0xffu64 << (8 * rank_of(m.to)));
            }
            masks.push(rng.next_u64());
            masks.push(rng.next_u64() & rng.next_u64());
            for mask in masks {
                c.count("legals_masked-comparisons");
                let mut got: Vec<Mv> = n.real.legals_masked(chess_bitboard::BitBoard::from_u64(mask)).map(mv_back).collect();
                got.sort();
                let wantm: Vec<Mv> = want.iter().copied().filter(|m| mask & (1u64 << m.to) != 0).collect();
                if got != wantm {
                    let missing: Vec<Mv> = wantm.iter().copied().filter(|m| !got.contains(m)).collect();
                    let extra: Vec<Mv> = got.iter().copied().filter(|m| !wantm.contains(m)).collect();
                    let (kind, cls) = if let Some(m) = extra.first() { ("extra-move", move_class(n.model, *m)) } else if let Some(m) = missing.first() { ("missing-move", move_class(n.model, *m)) } else { ("duplicate-move", "any") };
                    c.violation(
                        kind,
                        &format!("legals_masked:{cls}"),
                        format!("{} legals_masked({mask:#018x}) yields [{}], the legal moves into the mask are [{}]", n.model.to_fen(), moves_str(&got), moves_str(&wantm)),
                        n.replay().set("check", "legals_masked").set("mask", format!("{mask:#018x}")),
                    );
                    break;
                }
            }
        }
        // single-move legality query
        let mut probes: Vec<Mv> = want.clone();
        probes.extend(near_miss_triples(rng, n.model, n.legal, 32));
        let full = (n.focus && self.nodes % 4 == 0) || self.nodes % 64 == 0;
        if full {
            probes = all_triples();
            c.count("full-20480-triple-sweeps");
        }
        for t in probes {
            c.count("is_legal-probes");
            let r = n.real.is_legal(mv(t));
            let w = want.binary_search(&t).is_ok();
            if r != w {
                c.violation(
                    "is_legal-mismatch",
                    move_class(n.model, t),
                    format!("{}: is_legal({}) = {r}, rules say {w}", n.model.to_fen(), t.uci()),
                    n.replay().set("check", "is_legal").set("probe", t.uci()),
                );
                break;
            }
        }
    }
    fn refused(&mut self, c: &mut Collector, n: &Node, m: Mv, how: &str) {
        c.violation(
            "legal-move-refused",
            move_class(n.model, m),
            format!("{}: {how}({}) refused a legal move", n.model.to_fen(), m.uci()),
            n.replay().set("check", "refused").set("probe", m.uci()),
        );
    }
}

// =========================================================================== C02

pub struct C02 {
    pub nodes: u64,
}

fn diff_positions(want: &Position, got: &Position) -> Option<(&'static str, String)> {
    for s in 0..64u8 {
        if want.board[s as usize] != got.board[s as usize] {
            return Some((
                "placement",
                format!("square {}: expected {:?}, found {:?}", sq_name(s), want.board[s as usize], got.board[s as usize]),
            ));
        }
    }
    if want.turn != got.turn {
        return Some(("side-to-move", format!("expected {:?} found {:?}", want.turn, got.turn)));
    }
    if want.castle != got.castle {
        return Some(("castling-rights", format!("expected {} found {}", want.rights_str(), got.rights_str())));
    }
    if want.ep != got.ep {
        return Some(("ep-marker", format!("expected {:?} found {:?}", want.ep, got.ep)));
    }
    if want.half != got.half {
        return Some(("half-move-clock", format!("expected {} found {}", want.half, got.half)));
    }
    if want.full != got.full {
        return Some(("full-move-number", format!("expected {} found {}", want.full, got.full)));
    }
    None
}

impl Oracle for C02 {
    fn node(&mut self, c: &mut Collector, n: &Node, rng: &mut Rng) {
        self.nodes += 1;
        c.eval();
        if let Err(e) = partition_ok(n.real) {
            c.violation("partition", "node", format!("{}: {e}", n.model.to_fen()), n.replay());
        }
        let before = snapshot(n.real);
        // clock values at the 16-bit limit are outside the property's quantifier
        if n.model.half >= 65535 || n.model.full >= 65535 {
            return;
        }
        for (i, &m) in n.legal.iter().enumerate() {
            c.count("successors-compared");
            for t in move_tags(n.model, m) {
                c.tag(t);
            }
            let want = n.model.apply(m);
            let rm = mv(m);
            let Some(nb) = n.real.move_new(rm) else {
                c.violation(
                    "legal-move-refused",
                    move_class(n.model, m),
                    format!("{}: move_new({}) returned None for a legal move", n.model.to_fen(), m.uci()),
                    n.replay().set("probe", m.uci()),
                );
                continue;
            };
            if let Err(e) = partition_ok(&nb) {
                c.violation(
                    "partition",
                    move_class(n.model, m),
                    format!("{} after {}: {e}", n.model.to_fen(), m.uci()),
                    n.replay().set("probe", m.uci()),
                );
            }
            match observe(&nb) {
                Ok(got) => {
                    if let Some((field, d)) = diff_positions(&want, &got) {
                        c.violation(
                            &format!("successor-{field}"),
                            move_class(n.model, m),
                            format!("{} after {}: {d} (expected {})", n.model.to_fen(), m.uci(), want.to_fen()),
                            n.replay().set("probe", m.uci()),
                        );
                    }
                }
                Err(e) => c.violation("successor-unobservable", "any", e, n.replay().set("probe", m.uci())),
            }
            // the three checked operations must agree
            if i % 4 == (self.nodes as usize) % 4 || n.focus {
                c.count("three-way-agreement-checks");
                let mut b2 = *n.real;
                let ok2 = b2.move_mut(rm);
                let mut b3 = Board::standard();
                let ok3 = n.real.move_into(rm, &mut b3);
                let s1 = snapshot(&nb);
                if !ok2 || !ok3 || snapshot(&b2) != s1 || snapshot(&b3) != s1 {
                    c.violation(
                        "checked-ops-disagree",
                        move_class(n.model, m),
                        format!("{} move {}: move_new/move_mut({ok2})/move_into({ok3}) differ", n.model.to_fen(), m.uci()),
                        n.replay().set("probe", m.uci()),
                    );
                }
            }
            c.distinct(fnv(format!("{}|{}", n.id_hash(), m.uci()).as_bytes()));
        }
        if snapshot(n.real) != before {
            c.violation("source-board-mutated", "move_new", n.model.to_fen(), n.replay());
        }
        // illegal offers
        let mut offers = near_miss_triples(rng, n.model, n.legal, 32);
        let full = (n.focus && self.nodes % 16 == 0) || self.nodes % 256 == 0;
        if full {
            offers = all_triples();
            c.count("full-20480-illegal-offer-sweeps");
        }
        let mut sorted = n.legal.to_vec();
        sorted.sort();
        let sentinel = Board::standard();
        let sentinel_snap = snapshot(&sentinel);
        for t in offers {
            if sorted.binary_search(&t).is_ok() {
                continue;
            }
            c.count("illegal-offers");
            let rm = mv(t);
            let mut bad = None;
            if n.real.move_new(rm).is_some() {
                bad = Some("move_new accepted");
            }
            let mut b2 = *n.real;
            if b2.move_mut(rm) {
                bad = Some("move_mut accepted");
            } else if !real::same_fast(&b2, n.real) || (!full && snapshot(&b2) != before) {
                bad = Some("move_mut refused but changed the board");
            }
            let mut out = sentinel;
            if n.real.move_into(rm, &mut out) {
                bad = Some("move_into accepted");
            } else if !real::same_fast(&out, &sentinel) || (!full && snapshot(&out) != sentinel_snap) {
                bad = Some("move_into refused but wrote the output");
            }
            if let Some(what) = bad {
                c.violation(
                    "illegal-move-accepted-or-side-effect",
                    move_class(n.model, t),
                    format!("{}: {what} for illegal {}", n.model.to_fen(), t.uci()),
                    n.replay().set("probe", t.uci()),
                );
                break;
            }
        }
        if c.want_sample() && !n.legal.is_empty() && !n.moves.is_empty() {
            let m = n.legal[0];
            c.sample(n.replay().set("move", m.uci()).set("expected_successor", n.model.apply(m).to_fen()));
        }
    }
    fn refused(&mut self, c: &mut Collector, n: &Node, m: Mv, how: &str) {
        c.violation(
            "legal-move-refused",
            move_class(n.model, m),
            format!("{}: {how}({}) refused a legal move", n.model.to_fen(), m.uci()),
            n.replay().set("probe", m.uci()),
        );
    }
}

// =========================================================================== C03

pub struct C03 {
    pub nodes: u64,
}

pub fn status_of(s: GameState) -> Status {
    match s {
        GameState::CheckMate => Status::Checkmate,
        GameState::StaleMate => Status::Draw,
        GameState::Check => Status::Check,
        GameState::Running => Status::Running,
    }
}

fn last_move_signature(n: &Node) -> String {
    // class of the last move played (what the incremental update had to handle)
    if n.moves.is_empty() {
        return "root".into();
    }
    let mut p = Position::from_fen(n.root_fen).unwrap();
    for m in &n.moves[..n.moves.len() - 1] {
        p = p.apply(*m);
    }
    let m = *n.moves.last().unwrap();
    let t = move_tags(&p, m);
    let chk = t.iter().find(|x| x.starts_with("mv-discovered") || x.starts_with("mv-direct") || x.starts_with("mv-gives-double"));
    format!("{}{}", move_class(&p, m), chk.map(|x| format!("+{}", &x[3..])).unwrap_or_default())
}

impl Oracle for C03 {
    /// The moved board would be replaced by a freshly parsed one before the next node is judged
    /// (so that one divergence is not reported at every later node); what C03 promises about the
    /// moved board - same clocks, rights, e.p. marker, status and text as the position built from
    /// scratch - is therefore judged here, on the board as the move left it.
    fn diverged(&mut self, c: &mut Collector, n: &Node, m: Mv, moved: &Board, want: &Position, got: Result<&Position, &str>) {
        // clock values at the 16-bit limit are outside the property's quantifier (the counters saturate)
        if want.half >= 65535 || want.full >= 65535 {
            return;
        }
        let fen = want.to_fen();
        let Ok(sb) = real::parse(&fen) else {
            c.count("scratch-parse-rejected");
            return;
        };
        let mut diffs: Vec<&str> = Vec::new();
        if sb.half_move_clock() != moved.half_move_clock() || sb.full_move_clock() != moved.full_move_clock() {
            diffs.push("clocks");
        }
        if sb.state() != moved.state() {
            diffs.push("state");
        }
        if sb.in_check() != moved.in_check() {
            diffs.push("in_check");
        }
        if sb != *moved {
            diffs.push("eq");
        }
        if sb.to_string() != moved.to_string() {
            diffs.push("display");
        }
        if format!("{sb:?}") != format!("{moved:?}") {
            diffs.push("debug");
        }
        if real_moves(&sb) != real_moves(moved) {
            diffs.push("legal-moves");
        }
        if diffs.is_empty() {
            // the observation differs from the model but the board is indistinguishable from the
            // parser's: not a staleness (C02 judges the successor itself)
            c.count("divergence-without-scratch-difference");
            return;
        }
        let sig = format!("{}{}", move_class(n.model, m), if m.promo.is_some() && !n.model.is_capture(m) { "-quiet" } else { "" });
        let seen = match got {
            Ok(p) => p.to_fen(),
            Err(e) => format!("unobservable: {e}"),
        };
        c.violation(
            "stale-incremental-state",
            &format!("{}:after-{sig}", diffs[0]),
            format!(
                "{} then {}: the board reached by the move shows {seen}; it differs from the parser-built {fen} in {:?}\nmoved:\n{:?}\nscratch:\n{:?}",
                n.model.to_fen(), moves_str(&[m]), diffs, moved, sb
            ),
            n.replay().set("then_move", moves_str(&[m])).set("route", "parser"),
        );
    }
    fn node(&mut self, c: &mut Collector, n: &Node, _rng: &mut Rng) {
        self.nodes += 1;
        c.eval();
        let ntags = note_tags(c, n);
        let _ = ntags;
        let sig = last_move_signature(n);
        c.tag(&format!("last:{sig}"));
        let want_chk = n.model.in_check();
        if n.real.in_check() != want_chk {
            c.violation(
                "in_check-mismatch",
                &sig,
                format!("{}: in_check() = {}, king attacked = {want_chk}", n.model.to_fen(), n.real.in_check()),
                n.replay(),
            );
        }
        let want_st = n.model.status();
        let got_st = status_of(n.real.state());
        c.tag(&format!("status:{want_st:?}"));
        if got_st != want_st {
            c.violation(
                "state-mismatch",
                &format!("{want_st:?}"),
                format!("{}: state() = {:?}, rules say {want_st:?}", n.model.to_fen(), n.real.state()),
                n.replay(),
            );
        }
        // moved board vs the same position built from scratch
        let fen = n.model.to_fen();
        let mut scratch: Vec<(&str, Board)> = Vec::new();
        match real::parse(&fen) {
            Ok(b) => scratch.push(("parser", b)),
            Err(_) => c.count("scratch-parse-rejected"),
        }
        if let Some(Ok(b)) = real::build_via_builder(n.model) {
            scratch.push(("builder", b));
        }
        if self.nodes % 5 == 0 {
            if let Some(Ok(b)) = real::build_via_dirty_builder(n.model, _rng) {
                scratch.push(("dirty-builder", b));
            }
        }
        for (route, sb) in scratch {
            c.count(&format!("scratch-comparisons-{route}"));
            let mut diffs: Vec<&str> = Vec::new();
            if real_moves(&sb) != real_moves(n.real) {
                diffs.push("legal-moves");
            }
            if sb.in_check() != n.real.in_check() {
                diffs.push("in_check");
            }
            if sb.state() != n.real.state() {
                diffs.push("state");
            }
            if sb.zobrist() != n.real.zobrist() {
                diffs.push("hash");
            }
            if sb != *n.real {
                diffs.push("eq");
            }
            if sb.to_string() != n.real.to_string() {
                diffs.push("display");
            }
            if format!("{sb:?}") != format!("{:?}", n.real) {
                diffs.push("debug");
            }
            if format!("{sb:#?}") != format!("{:#?}", n.real) {
                diffs.push("debug-alt");
            }
            if sb.half_move_clock() != n.real.half_move_clock() || sb.full_move_clock() != n.real.full_move_clock() {
                diffs.push("clocks");
            }
            if !diffs.is_empty() {
                c.violation(
                    "stale-incremental-state",
                    &format!("{}:{}", diffs[0], sig),
                    format!(
                        "{}: board reached by moves differs from the {route}-built one in {:?}\nmoved:\n{:?}\nscratch:\n{:?}",
                        fen, diffs, n.real, sb
                    ),
                    n.replay().set("route", route),
                );
            }
        }
        if c.want_sample() && n.moves.len() > 2 {
            c.sample(n.replay().set("in_check", want_chk).set("status", format!("{want_st:?}")));
        }
    }
}

// =========================================================================== C04

struct RecordingHasher {
    writes: Vec<Vec<u8>>,
}
impl Hasher for RecordingHasher {
    fn finish(&self) -> u64 {
        0
    }
    fn write(&mut self, bytes: &[u8]) {
        self.writes.push(bytes.to_vec());
    }
}

pub struct C04 {
    pub nodes: u64,
    pub seen: HashMap<u64, (u64, String)>,
    pub key_table_done: bool,
}

pub fn zobrist_key_table(c: &mut Collector) {
    use chess_bitboard::{Color, File, Piece};
    let mut keys: Vec<(String, u64)> = Vec::new();
    for col in [Color::White, Color::Black] {
        for s in 0..64u8 {
            for pc in [Piece::Pawn, Piece::Knight, Piece::Bishop, Piece::Rook, Piece::Queen, Piece::King] {
                keys.push((format!("piece {col:?} {:?} {pc:?}", pos(s)), chess_lookup::zobrist(pos(s), pc, col)));
            }
        }
    }
    for i in 0..16usize {
        keys.push((format!("castle {i}"), chess_lookup::castle_rights_zobrist(i)));
    }
    for f in 0..8u8 {
        keys.push((format!("ep {f}"), chess_lookup::en_passant_zobrist(File::from_u8(f).unwrap())));
    }
    for col in [Color::White, Color::Black] {
        keys.push((format!("turn {col:?}"), chess_lookup::turn_zobrist(col)));
    }
    c.add("key-table-entries", keys.len() as u64);
    let mut seen: HashMap<u64, String> = HashMap::new();
    for (name, k) in keys {
        if k == 0 {
            c.violation("zero-key", "table", format!("key {name} is zero"), obj().set("key", name.as_str()));
        }
        if let Some(prev) = seen.insert(k, name.clone()) {
            c.violation(
                "duplicate-key",
                "table",
                format!("keys {prev} and {name} are both {k:#x}"),
                obj().set("key", name.as_str()).set("other", prev),
            );
        }
    }
}

impl C04 {
    fn transposition(&mut self, c: &mut Collector, n: &Node, rng: &mut Rng) {
        // a x b y  vs  b y a x  (or b x a y): if the model says both orders are legal and end in
        // identical positions, the real boards must be equal and hash equal
        if n.legal.len() < 2 {
            return;
        }
        for _ in 0..4 {
            let a = *rng.pick(n.legal);
            let b = *rng.pick(n.legal);
            if a.from == b.from || a.to == b.to {
                continue;
            }
            let pa = n.model.apply(a);
            let la = pa.legal_moves();
            if la.len() < 2 {
                continue;
            }
            let x = *rng.pick(&la);
            let y = *rng.pick(&la);
            for (s1, s2) in [([a, x, b, y], [b, y, a, x]), ([a, x, b, y], [b, x, a, y])] {
                let run = |seq: &[Mv; 4]| -> Option<Position> {
                    let mut p = n.model.clone();
                    for m in seq {
                        if !p.is_legal(*m) {
                            return None;
                        }
                        p = p.apply(*m);
                    }
                    Some(p)
                };
                let (Some(p1), Some(p2)) = (run(&s1), run(&s2)) else { continue };
                if p1.identity() != p2.identity() {
                    continue;
                }
                let play = |seq: &[Mv; 4]| -> Option<Board> {
                    let mut b = *n.real;
                    for m in seq {
                        b = b.move_new(mv(*m))?;
                    }
                    Some(b)
                };
                let (Some(b1), Some(b2)) = (play(&s1), play(&s2)) else { continue };
                c.count("transposition-pairs");
                if b1.zobrist() != b2.zobrist() || b1 != b2 {
                    c.violation(
                        "transposition-hash-differs",
                        "pair",
                        format!(
                            "{}: [{}] and [{}] reach the same position but hash {:#x} vs {:#x}, eq = {}",
                            n.model.to_fen(),
                            moves_str(&s1),
                            moves_str(&s2),
                            b1.zobrist(),
                            b2.zobrist(),
                            b1 == b2
                        ),
                        n.replay().set("seq1", moves_str(&s1)).set("seq2", moves_str(&s2)),
                    );
                }
                return;
            }
        }
    }
}

impl Oracle for C04 {
    fn node(&mut self, c: &mut Collector, n: &Node, rng: &mut Rng) {
        if !self.key_table_done {
            self.key_table_done = true;
            zobrist_key_table(c);
        }
        self.nodes += 1;
        c.eval();
        let h = n.real.zobrist();
        // Hash feeds exactly the position hash
        let mut rh = RecordingHasher { writes: vec![] };
        n.real.hash(&mut rh);
        if rh.writes.len() != 1 || rh.writes[0] != h.to_ne_bytes() {
            c.violation(
                "hash-impl-not-zobrist",
                "Hash",
                format!("{}: Hash wrote {:?}, zobrist() = {h:#x}", n.model.to_fen(), rh.writes),
                n.replay(),
            );
        }
        // same position from scratch: parser, builder; with different clocks
        let fen = n.model.to_fen();
        if let Ok(sb) = real::parse(&fen) {
            c.count("scratch-hash-comparisons");
            if sb.zobrist() != h || (sb == *n.real) != true {
                let sig = last_move_signature(n);
                c.violation(
                    "incremental-hash-differs",
                    &sig,
                    format!("{}: after moves hash = {h:#x}, from scratch = {:#x}, eq = {}", fen, sb.zobrist(), sb == *n.real),
                    n.replay(),
                );
            }
        }
        if let Some(Ok(sb)) = real::build_via_builder(n.model) {
            c.count("builder-hash-comparisons");
            if sb.zobrist() != h {
                c.violation(
                    "builder-hash-differs",
                    "builder",
                    format!("{fen}: moved/parsed hash {h:#x}, builder hash {:#x}", sb.zobrist()),
                    n.replay(),
                );
            }
        }
        if self.nodes % 3 == 0 {
            if let Some(Ok(sb)) = real::build_via_dirty_builder(n.model, rng) {
                c.count("dirty-builder-hash-comparisons");
                if sb.zobrist() != h || sb != *n.real {
                    c.violation(
                        "builder-hash-differs",
                        "dirty-builder-history",
                        format!("{fen}: a builder history with rejected / undone placements gives hash {:#x} (eq = {}), the position hashes {h:#x}", sb.zobrist(), sb == *n.real),
                        n.replay(),
                    );
                }
            }
        }
        if self.nodes % 4 == 0 {
            let mut q = n.model.clone();
            q.half = if n.model.ep.is_some() { q.half } else { (q.half + 17) % 90 };
            q.full = (q.full + 23) % 9000;
            if let Ok(sb) = real::parse(&q.to_fen()) {
                c.count("clock-variant-comparisons");
                if sb.zobrist() != h || sb != *n.real {
                    c.violation(
                        "clocks-influence-hash-or-eq",
                        "clocks",
                        format!("{} vs {}: hash {h:#x} vs {:#x}, eq = {}", fen, q.to_fen(), sb.zobrist(), sb == *n.real),
                        n.replay(),
                    );
                }
            }
        }
        // near-identical positions (one right removed, e.p. marker dropped, side flipped, one man
        // removed): whenever the board type calls two boards equal their hashes must be equal, and
        // clock-only variants (also WITH an e.p. marker) must be equal and hash equal
        if self.nodes % 5 == 0 || n.focus {
            let mut variants: Vec<(&str, Position)> = Vec::new();
            for i in 0..4 {
                if n.model.castle[i] {
                    let mut q = n.model.clone();
                    q.castle[i] = false;
                    variants.push(("one-right-removed", q));
                }
            }
            if n.model.ep.is_some() {
                let mut q = n.model.clone();
                q.ep = None;
                variants.push(("ep-marker-dropped", q));
                let mut q = n.model.clone();
                q.half = 7;
                q.full = (q.full + 3) % 9000;
                variants.push(("clock-variant-with-ep", q));
            }
            {
                let mut q = n.model.clone();
                q.turn = q.turn.flip();
                q.ep = None;
                variants.push(("side-flipped", q));
                let mut q = n.model.clone();
                if let Some(s) = (0..64usize).find(|s| matches!(q.board[*s], Some((_, k)) if k != Kind::K)) {
                    q.board[s] = None;
                    q.ep = None;
                    variants.push(("one-man-removed", q));
                }
            }
            for (what, q) in variants {
                if q.c06_ok().is_err() {
                    continue;
                }
                let Ok(vb) = real::parse(&q.to_fen()) else { continue };
                c.count("near-identical-variant-comparisons");
                let same_identity = q.identity() == n.model.identity();
                let eq = vb == *n.real;
                let hash_eq = vb.zobrist() == h;
                if eq && !hash_eq {
                    c.violation(
                        "equal-boards-hash-differently",
                        what,
                        format!("{fen} and {}: == says equal, hashes are {h:#x} and {:#x}", q.to_fen(), vb.zobrist()),
                        n.replay().set("variant_fen", q.to_fen()),
                    );
                } else if same_identity && (!eq || !hash_eq) {
                    c.violation(
                        "clocks-influence-hash-or-eq",
                        what,
                        format!("{fen} vs {}: same placement/side/rights/e.p. but eq = {eq}, hashes {h:#x} vs {:#x}", q.to_fen(), vb.zobrist()),
                        n.replay().set("variant_fen", q.to_fen()),
                    );
                }
            }
        }
        // identity table: the same position reached by a different history must hash the same
        let id = n.id_hash();
        if !n.moves.is_empty() {
            c.distinct(id);
        }
        match self.seen.get(&id) {
            Some((h0, how)) => {
                c.count("identity-revisits");
                if *h0 != h {
                    c.violation(
                        "history-dependent-hash",
                        "revisit",
                        format!("{fen}: hash {h:#x} here, {h0:#x} when reached via {how}"),
                        n.replay().set("other_history", how.as_str()),
                    );
                }
            }
            None => {
                if self.seen.len() < 3_000_000 {
                    self.seen.insert(id, (h, format!("{} [{}]", n.root_fen, moves_str(n.moves))));
                }
            }
        }
        if self.nodes % 3 == 0 || n.focus {
            self.transposition(c, n, rng);
        }
        if c.want_sample() && n.moves.len() > 1 {
            c.sample(n.replay().set("hash", format!("{h:#018x}")));
        }
    }
}

// =========================================================================== C05

pub struct C05 {
    pub nodes: u64,
    pub std_done: bool,
}

fn equal_boards(a: &Board, b: &Board) -> Option<&'static str> {
    if a != b {
        return Some("eq");
    }
    if a.half_move_clock() != b.half_move_clock() || a.full_move_clock() != b.full_move_clock() {
        return Some("clocks");
    }
    if a.zobrist() != b.zobrist() {
        return Some("hash");
    }
    if format!("{a:?}") != format!("{b:?}") {
        return Some("debug");
    }
    if real_moves(a) != real_moves(b) {
        return Some("legal-moves");
    }
    None
}

impl C05 {
    fn fen_fields(&mut self, c: &mut Collector, n: &Node, rng: &mut Rng) {
        // vary the non-placement fields over everything consistent with the placement
        let p0 = n.model;
        let mut allowed = [false; 4];
        for (idx, col, rf) in [(WK, Col::W, 7), (WQ, Col::W, 0), (BK, Col::B, 7), (BQ, Col::B, 0)] {
            let hr = col.home_rank();
            allowed[idx] = p0.board[sq(4, hr) as usize] == Some((col, Kind::K)) && p0.board[sq(rf, hr) as usize] == Some((col, Kind::R));
        }
        let clocks: [u32; 11] = [0, 1, 9, 10, 99, 100, 101, 999, 1000, 9998, 9999];
        for mask in 0..16u32 {
            let mut q = p0.clone();
            let mut ok = true;
            for i in 0..4 {
                q.castle[i] = mask & (1 << i) != 0;
                if q.castle[i] && !allowed[i] {
                    ok = false;
                }
            }
            if !ok {
                continue;
            }
            for turn in [Col::W, Col::B] {
                q.turn = turn;
                let opp = turn.flip();
                let dr = opp.pawn_start_rank() + 2 * opp.fwd();
                let mut eps: Vec<Option<u8>> = vec![None];
                for f in 0..8 {
                    if q.board[sq(f, dr) as usize] == Some((opp, Kind::P))
                        && q.board[sq(f, dr - opp.fwd()) as usize].is_none()
                        && q.board[sq(f, opp.pawn_start_rank()) as usize].is_none()
                    {
                        eps.push(Some(f as u8));
                    }
                }
                for ep in eps {
                    q.ep = ep;
                    q.half = if ep.is_some() { 0 } else { *rng.pick(&clocks) };
                    q.full = if rng.chance(1, 3) { rng.range(0, 9999) as u32 } else { *rng.pick(&clocks) };
                    if q.c06_ok().is_err() {
                        continue;
                    }
                    let s = q.to_fen();
                    c.count("fen-field-variants");
                    if ep.is_some() {
                        c.tag(if turn == Col::W { "variant-ep-white-to-move" } else { "variant-ep-black-to-move" });
                    }
                    c.distinct(fnv(s.as_bytes()));
                    match real::parse(&s) {
                        // a field variant of a reachable placement need not be reachable itself, so
                        // a rejection is reported in the evidence but is not an alarm
                        Err(_) => c.count("fen-field-variants-rejected"),
                        Ok(b) => {
                            let w = b.to_string();
                            if w != s {
                                c.violation(
                                    "parse-then-write-differs",
                                    if ep.is_some() {
                                        if turn == Col::W { "ep-white-to-move" } else { "ep-black-to-move" }
                                    } else {
                                        "no-ep"
                                    },
                                    format!("parsed {s:?}, wrote {w:?}"),
                                    obj().set("fen", s.as_str()),
                                );
                            }
                            match observe(&b) {
                                Ok(o) if o == q => {}
                                Ok(o) => c.violation(
                                    "parse-wrong-position",
                                    "fields",
                                    format!("{s:?} parsed as {}", o.to_fen()),
                                    obj().set("fen", s.as_str()),
                                ),
                                Err(e) => c.violation("parse-unobservable", "fields", e, obj().set("fen", s.as_str())),
                            }
                        }
                    }
                }
            }
        }
    }
}

impl Oracle for C05 {
    fn node(&mut self, c: &mut Collector, n: &Node, rng: &mut Rng) {
        if !self.std_done {
            self.std_done = true;
            let std = Board::standard();
            let m = Position::standard();
            c.count("standard-constructor-checks");
            match real::parse(&m.to_fen()) {
                Ok(pb) => {
                    if let Some(d) = equal_boards(&std, &pb) {
                        c.violation("constructors-disagree", "standard-vs-parser", d.to_string(), obj().set("fen", m.to_fen()));
                    }
                }
                Err(e) => c.violation("canonical-fen-rejected", "standard", e, obj().set("fen", m.to_fen())),
            }
            match observe(&std) {
                Ok(o) if o == m => {}
                other => c.violation("constructors-disagree", "standard-vs-model", format!("{other:?}"), obj()),
            }
            let mut nr = m.clone();
            nr.castle = [false; 4];
            if let (Some(Ok(bb)), Ok(pb)) = (real::build_via_builder(&nr), real::parse(&nr.to_fen())) {
                if let Some(d) = equal_boards(&bb, &pb) {
                    c.violation("constructors-disagree", "builder-vs-parser", d.to_string(), obj().set("fen", nr.to_fen()));
                }
            }
        }
        // the property quantifies over clock values 0..9999 (the FEN clock fields are 4 digits)
        if n.model.half > 9999 || n.model.full > 9999 {
            c.count("skipped-clock-beyond-9999");
            return;
        }
        self.nodes += 1;
        c.eval();
        let want = n.model.to_fen();
        let got = n.real.to_string();
        let epsig = match (n.model.ep.is_some(), n.model.turn) {
            (false, _) => "no-ep",
            (true, Col::W) => "ep-white-to-move",
            (true, Col::B) => "ep-black-to-move",
        };
        c.tag(epsig);
        c.tag(&format!("rights:{}", n.model.rights_str()));
        if !n.moves.is_empty() {
            c.distinct(fnv(want.as_bytes()));
        }
        if got != want {
            c.violation(
                "written-fen-wrong",
                epsig,
                format!("board writes {got:?}, canonical FEN is {want:?}"),
                n.replay(),
            );
        }
        // write -> parse
        match real::parse(&got) {
            Err(e) => c.violation(
                "own-output-rejected",
                epsig,
                format!("parser rejects the writer's output {got:?}: {e}"),
                n.replay(),
            ),
            Ok(b) => {
                if let Some(d) = equal_boards(&b, n.real) {
                    c.violation(
                        "write-parse-not-identity",
                        &format!("{d}:{epsig}"),
                        format!("{got:?} parses to a board differing in {d}"),
                        n.replay(),
                    );
                }
            }
        }
        // parse -> write on the canonical text
        match real::parse(&want) {
            Err(e) => {
                if reachable_family(n.family) {
                    c.violation("canonical-fen-rejected", epsig, format!("{want:?}: {e}"), n.replay())
                } else {
                    c.count("unreachable-family-fen-rejected")
                }
            }
            Ok(b) => {
                let w = b.to_string();
                if w != want {
                    c.violation("parse-then-write-differs", epsig, format!("parsed {want:?}, wrote {w:?}"), n.replay());
                }
                if let Some(d) = equal_boards(&b, n.real) {
                    c.violation(
                        "parsed-differs-from-played",
                        &format!("{d}:{epsig}"),
                        format!("{want:?}: parsed board differs from the played one in {d}"),
                        n.replay(),
                    );
                }
                if let Some(Ok(bb)) = real::build_via_builder(n.model) {
                    c.count("builder-comparisons");
                    if let Some(d) = equal_boards(&bb, &b) {
                        c.violation(
                            "constructors-disagree",
                            &format!("builder-vs-parser:{d}"),
                            format!("{want:?}: builder and parser differ in {d}"),
                            n.replay(),
                        );
                    }
                }
                if self.nodes % 3 == 0 {
                    match real::build_via_dirty_builder(n.model, rng) {
                        Some(Ok(bb)) => {
                            c.count("dirty-builder-comparisons");
                            if let Some(d) = equal_boards(&bb, &b) {
                                c.violation(
                                    "constructors-disagree",
                                    &format!("dirty-builder-vs-parser:{d}"),
                                    format!("{want:?}: a builder history with rejected / undone placements and the parser differ in {d}"),
                                    n.replay(),
                                );
                            }
                        }
                        Some(Err(e)) if reachable_family(n.family) && n.model.c06_ok().is_ok() => {
                            c.count(&format!("dirty-builder-rejected:{e}"));
                        }
                        _ => {}
                    }
                }
            }
        }
        if self.nodes % 16 == 0 || n.focus {
            self.fen_fields(c, n, rng);
        }
        if c.want_sample() && n.moves.len() > 1 {
            c.sample(n.replay().set("written", got));
        }
    }
    fn root_rejected(&mut self, c: &mut Collector, fen: &str, err: &str, family: &str) {
        if reachable_family(family) {
            c.violation("canonical-fen-rejected", "root", format!("{fen:?} ({family}): {err}"), obj().set("fen", fen));
        } else {
            c.count("unreachable-family-root-rejected");
        }
    }
    fn root_mismatch(&mut self, c: &mut Collector, fen: &str, detail: &str) {
        c.violation("parse-wrong-position", "root", format!("{fen:?}: {detail}"), obj().set("fen", fen));
    }
}

pub fn theme_name(t: Theme) -> &'static str {
    match t {
        Theme::Sparse => "sparse",
        Theme::Mid => "mid",
        Theme::Dense => "dense",
        Theme::Castle => "castle",
        Theme::PawnRace => "pawn-race",
        Theme::Promo => "promo",
        Theme::MatingNet => "mating-net",
    }
}

#[allow(dead_code)]
pub fn unused(_: ChessMove) -> Mv {
    mv_back(ChessMove { source: pos(0), dest: pos(0), piece: None })
}
