//! Adaptor between the code under test (chess-movegen etc.) and the reference model.
//! Everything here goes through the *public, safe* API of /repo.

use chess_bitboard::{BitBoard, Color, Piece, Pos, PromotionPiece};
use chess_movegen::{Board, ChessMove};
use refmodel::{Col, Kind, Mv, Position, KINDS};

pub fn pos(s: u8) -> Pos {
    Pos::from_u8(s).expect("square index < 64")
}

pub fn col(c: Col) -> Color {
    match c {
        Col::W => Color::White,
        Col::B => Color::Black,
    }
}
pub fn col_back(c: Color) -> Col {
    match c {
        Color::White => Col::W,
        Color::Black => Col::B,
    }
}
pub fn kind(k: Kind) -> Piece {
    match k {
        Kind::P => Piece::Pawn,
        Kind::N => Piece::Knight,
        Kind::B => Piece::Bishop,
        Kind::R => Piece::Rook,
        Kind::Q => Piece::Queen,
        Kind::K => Piece::King,
    }
}
pub fn kind_back(k: Piece) -> Kind {
    match k {
        Piece::Pawn => Kind::P,
        Piece::Knight => Kind::N,
        Piece::Bishop => Kind::B,
        Piece::Rook => Kind::R,
        Piece::Queen => Kind::Q,
        Piece::King => Kind::K,
    }
}
pub fn promo(k: Kind) -> Option<PromotionPiece> {
    match k {
        Kind::N => Some(PromotionPiece::Knight),
        Kind::B => Some(PromotionPiece::Bishop),
        Kind::R => Some(PromotionPiece::Rook),
        Kind::Q => Some(PromotionPiece::Queen),
        _ => None,
    }
}
pub fn promo_back(p: PromotionPiece) -> Kind {
    match p {
        PromotionPiece::Knight => Kind::N,
        PromotionPiece::Bishop => Kind::B,
        PromotionPiece::Rook => Kind::R,
        PromotionPiece::Queen => Kind::Q,
    }
}

pub fn mv(m: Mv) -> ChessMove {
    ChessMove { source: pos(m.from), dest: pos(m.to), piece: m.promo.and_then(promo) }
}
pub fn mv_back(m: ChessMove) -> Mv {
    Mv { from: m.source.to_u8(), to: m.dest.to_u8(), promo: m.piece.map(promo_back) }
}

/// Everything observable about a real board that the model can predict, read through public
/// accessors.  Castling rights and the e.p. file are not exposed by accessors; they are read from
/// the `Debug` rendering (lines "castle rights: " and "en-passant: ") so that this observation
/// does not depend on the FEN writer, which property C05 judges separately.
pub fn observe(b: &Board) -> Result<Position, String> {
    let mut p = Position::empty();
    for s in 0..64u8 {
        if let Some((c, k)) = b.raw().get(pos(s)) {
            p.board[s as usize] = Some((col_back(c), kind_back(k)));
        }
    }
    p.turn = col_back(b.turn());
    p.half = b.half_move_clock() as u32;
    p.full = b.full_move_clock() as u32;
    // castling rights and e.p. file: from the Debug rendering when that channel calibrates (see
    // refmodel::textobs), otherwise from the FEN writer's fields - counted, so that the evidence
    // shows which channel was used
    let (castle, ep) = if debug_channel_ok() {
        match refmodel::textobs::from_debug_text(&format!("{b:?}")) {
            Ok(x) => x,
            Err(why) => {
                DEBUG_FALLBACKS.fetch_add(1, std::sync::atomic::Ordering::Relaxed);
                refmodel::textobs::from_fen_text(&b.to_string()).map_err(|e| format!("{why}; fallback: {e}"))?
            }
        }
    } else {
        DEBUG_FALLBACKS.fetch_add(1, std::sync::atomic::Ordering::Relaxed);
        refmodel::textobs::from_fen_text(&b.to_string())?
    };
    p.castle = castle;
    p.ep = ep;
    Ok(p)
}

/// Number of observations that could not use the Debug rendering (see `observe`).
pub static DEBUG_FALLBACKS: std::sync::atomic::AtomicU64 = std::sync::atomic::AtomicU64::new(0);

/// Does the Debug rendering reproduce rights and e.p. file on every calibration position?
pub fn debug_channel_ok() -> bool {
    static OK: std::sync::OnceLock<bool> = std::sync::OnceLock::new();
    *OK.get_or_init(|| {
        refmodel::textobs::calibration_positions().iter().all(|p| match chess_movegen::fen::parse_fen(p.to_fen().as_bytes()) {
            Ok(b) => refmodel::textobs::from_debug_text(&format!("{b:?}")).ok() == Some((p.castle, p.ep)),
            Err(_) => false,
        })
    })
}

/// Structural invariant of the eight bitboards: two colour sets disjoint, six piece sets pairwise
/// disjoint, unions equal, and they agree with `get`.
pub fn partition_ok(b: &Board) -> Result<(), String> {
    let raw = b.raw();
    let w = raw[Color::White];
    let bl = raw[Color::Black];
    if (w & bl).any() {
        return Err(format!("colour sets overlap: {:x}", (w & bl).to_u64()));
    }
    let mut union = BitBoard::empty();
    let mut total = 0u32;
    for k in KINDS {
        let bb = raw[kind(k)];
        if (union & bb).any() {
            return Err(format!("piece sets overlap at {:x}", (union & bb).to_u64()));
        }
        union |= bb;
        total += bb.count() as u32;
    }
    if union != (w | bl) {
        return Err(format!(
            "piece union {:x} != colour union {:x}",
            union.to_u64(),
            (w | bl).to_u64()
        ));
    }
    if raw.all() != union || total != union.count() as u32 {
        return Err("all()/count mismatch".into());
    }
    Ok(())
}

pub fn parse(fen: &str) -> Result<Board, String> {
    chess_movegen::fen::parse_fen(fen.as_bytes()).map_err(|e| format!("{e:?}"))
}

/// Sorted list of the moves the real generator yields (duplicates preserved).
pub fn real_moves(b: &Board) -> Vec<Mv> {
    let mut v: Vec<Mv> = b.legals().map(mv_back).collect();
    v.sort();
    v
}

pub fn moves_str(ms: &[Mv]) -> String {
    ms.iter().map(|m| m.uci()).collect::<Vec<_>>().join(" ")
}

/// Build through the incremental builder (only possible for positions without castling rights,
/// because the rights type cannot be named outside chess-movegen).
pub fn build_via_builder(p: &Position) -> Option<Result<Board, String>> {
    if p.castle.iter().any(|x| *x) || p.half > 65535 || p.full > 65535 {
        return None;
    }
    let mut b = Board::builder();
    for s in 0..64u8 {
        if let Some((c, k)) = p.board[s as usize] {
            if b.place(pos(s), col(c), kind(k)).is_err() {
                return Some(Err("builder.place reported occupied".into()));
            }
        }
    }
    b.turn(col(p.turn));
    b.half_move_clock(p.half as u16);
    b.full_move_clock(p.full as u16);
    b.enpassant(p.ep.map(|f| chess_bitboard::File::from_u8(f).unwrap()));
    Some(b.build().map_err(|e| format!("{e:?}")))
}

/// A full snapshot used to decide "left untouched" / "indistinguishable".
pub fn snapshot(b: &Board) -> String {
    let raw = b.raw();
    let mut s = format!(
        "{b}|{b:?}|{}|{}|{}|",
        b.half_move_clock(),
        b.full_move_clock(),
        b.zobrist()
    );
    for c in [Color::White, Color::Black] {
        s.push_str(&format!("{:x},", raw[c].to_u64()));
    }
    for k in KINDS {
        s.push_str(&format!("{:x},", raw[kind(k)].to_u64()));
    }
    s
}

/// Cheap equality on everything accessor-visible (no text rendering).
pub fn same_fast(a: &Board, b: &Board) -> bool {
    if a != b
        || a.half_move_clock() != b.half_move_clock()
        || a.full_move_clock() != b.full_move_clock()
        || a.zobrist() != b.zobrist()
        || a.turn() != b.turn()
        || a.in_check() != b.in_check()
    {
        return false;
    }
    let (ra, rb) = (a.raw(), b.raw());
    for c in [Color::White, Color::Black] {
        if ra[c] != rb[c] {
            return false;
        }
    }
    for k in KINDS {
        if ra[kind(k)] != rb[kind(k)] {
            return false;
        }
    }
    true
}

/// Build the same position through a *messy* builder history: random placement order, rejected
/// duplicate placements (the error is ignored, as a caller might), wrong pieces placed and removed
/// again, removals of empty squares, fields set twice.  The result must be indistinguishable from
/// the clean routes.
pub fn build_via_dirty_builder(p: &Position, rng: &mut refmodel::rng::Rng) -> Option<Result<Board, String>> {
    if p.castle.iter().any(|x| *x) || p.half > 65535 || p.full > 65535 {
        return None;
    }
    let mut b = Board::builder();
    let mut squares: Vec<u8> = (0..64u8).filter(|s| p.board[*s as usize].is_some()).collect();
    rng.shuffle(&mut squares);
    let kinds = [Kind::P, Kind::N, Kind::B, Kind::R, Kind::Q, Kind::K];
    b.turn(col(p.turn.flip()));
    b.half_move_clock(rng.below(500) as u16);
    for (i, s) in squares.iter().enumerate() {
        let (c, k) = p.board[*s as usize].unwrap();
        match rng.below(5) {
            0 => {
                // a wrong piece first, then remove it
                let _ = b.place(pos(*s), col(c.flip()), kind(*rng.pick(&kinds)));
                b.remove(pos(*s));
            }
            1 => {
                // removing an empty square is a no-op
                b.remove(pos(*s));
            }
            _ => {}
        }
        if b.place(pos(*s), col(c), kind(k)).is_err() {
            return Some(Err("builder.place reported an empty square as occupied".into()));
        }
        // a rejected placement on an occupied square (error ignored by the caller)
        if rng.chance(1, 3) {
            let t = squares[rng.below(i as u64 + 1) as usize];
            if b.place(pos(t), col(if rng.chance(1, 2) { Col::W } else { Col::B }), kind(*rng.pick(&kinds))).is_ok() {
                return Some(Err("builder.place accepted an occupied square".into()));
            }
        }
        if rng.chance(1, 6) {
            // replace flow: remove and place the same piece again
            b.remove(pos(*s));
            let _ = b.place(pos(*s), col(c), kind(k));
        }
    }
    b.enpassant(Some(chess_bitboard::File::from_u8(rng.below(8) as u8).unwrap()));
    b.turn(col(p.turn));
    b.half_move_clock(p.half as u16);
    b.full_move_clock(p.full as u16);
    b.enpassant(p.ep.map(|f| chess_bitboard::File::from_u8(f).unwrap()));
    Some(b.build().map_err(|e| format!("{e:?}")))
}
