//! C14: scores form a total order matching game-theoretic preference.

use refmodel::report::Collector;
use chess_engine::Score;
use refmodel::json::obj;
use refmodel::rng::{fnv, mix3, Rng};
use std::cmp::Ordering;

/// Reference key: Min -> -inf; BlackMateIn(x) -> -2^40 + x; Raw(v) -> v; WhiteMateIn(x) -> 2^40 - x;
/// Max -> +inf.
pub fn key(s: Score) -> i128 {
    match s {
        Score::Min => i128::MIN,
        Score::BlackMateIn(x) => -(1i128 << 40) + x as i128,
        Score::Raw(v) => v as i128,
        Score::WhiteMateIn(x) => (1i128 << 40) - x as i128,
        Score::Max => i128::MAX,
    }
}

fn s2(s: Score) -> String {
    crate::engmon::score_str(s)
}

fn check_pair(c: &mut Collector, a: Score, b: Score) -> bool {
    let want = key(a).cmp(&key(b));
    let got = a.cmp(&b);
    let mut bad: Option<&'static str> = None;
    if got != want {
        bad = Some("cmp-differs-from-preference-order");
    } else if a.partial_cmp(&b) != Some(got) {
        bad = Some("partial_cmp-disagrees");
    } else if (a == b) != (got == Ordering::Equal) {
        bad = Some("eq-disagrees-with-cmp");
    } else if b.cmp(&a) != got.reverse() {
        bad = Some("not-antisymmetric");
    } else if (a < b) != (got == Ordering::Less) || (a > b) != (got == Ordering::Greater) || (a <= b) != (got != Ordering::Greater) || (a >= b) != (got != Ordering::Less) {
        bad = Some("operators-disagree");
    } else if key(a.max(b)) != key(a).max(key(b)) || key(a.min(b)) != key(a).min(key(b)) {
        bad = Some("max-min-disagree");
    }
    if let Some(kind) = bad {
        c.violation(
            kind,
            &format!("{:?}-vs-{:?}", a.kind(), b.kind()),
            format!("a = {}, b = {}: cmp = {got:?}, preference order says {want:?}, partial_cmp = {:?}, a == b: {}", s2(a), s2(b), a.partial_cmp(&b), a == b),
            obj().set("a", s2(a)).set("b", s2(b)),
        );
        return false;
    }
    true
}

pub fn score_set(rng: &mut Rng) -> Vec<Score> {
    let mut v = vec![Score::Min, Score::Max];
    let mut dists: Vec<u16> = vec![0, 1, 2, 3, 255, 256, 32767, 32768, 65534, 65535];
    for _ in 0..12 {
        dists.push(rng.below(65536) as u16);
    }
    for d in &dists {
        v.push(Score::WhiteMateIn(*d));
        v.push(Score::BlackMateIn(*d));
    }
    let mut raws: Vec<i32> = vec![i32::MIN, i32::MIN + 1, -1, 0, 1, i32::MAX - 1, i32::MAX, -100, 100, 900, -900];
    for _ in 0..30 {
        raws.push(rng.next_u64() as i32);
    }
    for r in raws {
        v.push(Score::Raw(r));
    }
    v
}

pub fn c14(c: &mut Collector, seed: u64, shard: u64, nshards: u64, thorough: bool, small: bool) {
    let mut rng = Rng::new(mix3(seed, 0, 0xC14));
    let mut set = score_set(&mut rng);
    if small {
        // under Miri: the sentinels, eight mate distances per side and the raw extremes (21 x 21 pairs)
        set = vec![Score::Min, Score::Max];
        for d in [0u16, 1, 255, 256, 32768, 65535] {
            set.push(Score::WhiteMateIn(d));
            set.push(Score::BlackMateIn(d));
        }
        for r in [i32::MIN, i32::MIN + 1, -1, 0, 1, i32::MAX - 1, i32::MAX] {
            set.push(Score::Raw(r));
        }
    }
    c.add("score-set-size", set.len() as u64);
    // all pairs and triples over the set, dealt to shards by first index
    'outer: for (i, &a) in set.iter().enumerate() {
        if i as u64 % nshards != shard {
            continue;
        }
        for &b in &set {
            c.eval();
            c.count("pairs");
            c.distinct(fnv(format!("{}|{}", s2(a), s2(b)).as_bytes()));
            if !check_pair(c, a, b) {
                continue 'outer;
            }
            if small {
                continue; // under Miri: every pair of the boundary set through every operator, no triples
            }
            for &d in &set {
                c.count("triples");
                // transitivity
                if a.cmp(&b) != Ordering::Greater && b.cmp(&d) != Ordering::Greater && a.cmp(&d) == Ordering::Greater {
                    c.violation(
                        "not-transitive",
                        "triple",
                        format!("{} <= {} <= {} but {} > {}", s2(a), s2(b), s2(d), s2(a), s2(d)),
                        obj().set("a", s2(a)).set("b", s2(b)).set("c", s2(d)),
                    );
                    continue 'outer;
                }
            }
        }
    }
    if small {
        return;
    }
    // every one of the 2 x 65536 mate scores against the whole set
    for x in 0..=65535u32 {
        if x as u64 % nshards != shard {
            continue;
        }
        for m in [Score::WhiteMateIn(x as u16), Score::BlackMateIn(x as u16)] {
            for &b in &set {
                c.eval();
                c.count("mate-distance-sweep-pairs");
                if !check_pair(c, m, b) || !check_pair(c, b, m) {
                    break;
                }
            }
        }
        // neighbours: quicker white mate greater, slower black mate greater
        if x < 65535 {
            let (w0, w1) = (Score::WhiteMateIn(x as u16), Score::WhiteMateIn(x as u16 + 1));
            let (b0, b1) = (Score::BlackMateIn(x as u16), Score::BlackMateIn(x as u16 + 1));
            if !(w0 > w1) || !(b1 > b0) {
                c.violation("mate-distance-order", "neighbours", format!("distance {x}: {:?} {:?}", w0.cmp(&w1), b0.cmp(&b1)), obj().set("distance", x as u64));
            }
        }
    }
    // cross-kind exact-value coincidences: a comparison routed through a folded / packed numeric key
    // (mate = BASE - d, kind << 16 + payload, ...) goes wrong only for Raw(+-BASE +- d).  Every mate
    // distance is paired with the raw values at +-d around every power of two and power of ten.
    let mut bases: Vec<i64> = Vec::new();
    for bit in 8..=31u32 {
        bases.push(1i64 << bit);
        bases.push((1i64 << bit) - 1);
    }
    let mut ten = 100i64;
    while ten <= 1_000_000_000 {
        bases.push(ten);
        bases.push(ten / 2);
        ten *= 10;
    }
    bases.extend([30000, 32000, 20000, 100_000 - 1, 999_999, 9_999, 65535 * 2, 65536 * 3, i32::MAX as i64, i32::MAX as i64 / 2]);
    for x in 0..=65535i64 {
        if x as u64 % nshards != shard {
            continue;
        }
        let (w, b) = (Score::WhiteMateIn(x as u16), Score::BlackMateIn(x as u16));
        for &base in &bases {
            for v in [base - x, base + x, -base + x, -base - x, x - base + 1, base - x - 1] {
                if v < i32::MIN as i64 || v > i32::MAX as i64 {
                    continue;
                }
                let r = Score::Raw(v as i32);
                c.eval();
                c.count("cross-kind-coincidence-pairs");
                if !check_pair(c, w, r) || !check_pair(c, r, b) || !check_pair(c, r, w) || !check_pair(c, b, r) {
                    return;
                }
            }
        }
    }
    if shard == 0 {
        for &base in &bases {
            for mult in [1i64, 2, 3, 4] {
                for v in [base * mult, -base * mult] {
                    if v < i32::MIN as i64 || v > i32::MAX as i64 {
                        continue;
                    }
                    let r = Score::Raw(v as i32);
                    for sentinel in [Score::Min, Score::Max] {
                        c.eval();
                        c.count("cross-kind-coincidence-pairs");
                        check_pair(c, sentinel, r);
                        check_pair(c, r, sentinel);
                    }
                }
            }
        }
    }
    // sort / binary_search of seeded vectors against key order
    let rounds = if thorough { 4000 } else { 300 };
    for round in 0..rounds {
        let mut rng = Rng::new(mix3(seed, shard, 0x5047 + round));
        let n = rng.range(2, 200) as usize;
        let mut v: Vec<Score> = (0..n)
            .map(|_| match rng.below(6) {
                0 => *rng.pick(&set),
                1 => Score::WhiteMateIn(rng.below(65536) as u16),
                2 => Score::BlackMateIn(rng.below(65536) as u16),
                3 => Score::Raw(rng.range(-2000, 2000) as i32),
                _ => Score::Raw(rng.next_u64() as i32),
            })
            .collect();
        c.eval();
        c.count("sorted-vectors");
        let r = std::panic::catch_unwind(std::panic::AssertUnwindSafe(|| {
            v.sort();
            v
        }));
        match r {
            Err(_) => {
                c.violation("sort-panicked", "sort", "slice::sort detected a non-total order".into(), obj().set("round", r_id(round)));
            }
            Ok(v) => {
                for w in v.windows(2) {
                    if key(w[0]) > key(w[1]) {
                        c.violation("sort-not-by-preference", "sort", format!("{} sorted before {}", s2(w[0]), s2(w[1])), obj().set("a", s2(w[0])).set("b", s2(w[1])));
                        break;
                    }
                }
                let probe = *rng.pick(&v);
                if let Ok(i) = v.binary_search(&probe) {
                    if key(v[i]) != key(probe) {
                        c.violation("binary-search-wrong", "sort", format!("found {} for {}", s2(v[i]), s2(probe)), obj());
                    }
                } else {
                    c.violation("binary-search-missed", "sort", format!("{} not found in a vector containing it", s2(probe)), obj().set("a", s2(probe)));
                }
            }
        }
    }
    c.sample(obj().set("a", s2(set[5])).set("b", s2(set[9])).set("cmp", format!("{:?}", set[5].cmp(&set[9]))));
}

fn r_id(x: u64) -> u64 {
    x
}

pub fn replay(c: &mut Collector, r: &refmodel::json::J) -> i32 {
    let parse = |s: &str| -> Option<Score> {
        let num = |t: &str| t[t.find('(')? + 1..t.find(')')?].parse::<i64>().ok();
        Some(if s == "Min" {
            Score::Min
        } else if s == "Max" {
            Score::Max
        } else if s.starts_with("Raw") {
            Score::Raw(num(s)? as i32)
        } else if s.starts_with("WhiteMateIn") {
            Score::WhiteMateIn(num(s)? as u16)
        } else if s.starts_with("BlackMateIn") {
            Score::BlackMateIn(num(s)? as u16)
        } else {
            return None;
        })
    };
    let a = r.get("a").and_then(|x| x.as_str()).and_then(parse);
    let b = r.get("b").and_then(|x| x.as_str()).and_then(parse);
    if let (Some(a), Some(b)) = (a, b) {
        check_pair(c, a, b);
        check_pair(c, b, a);
        println!("{} vs {}: cmp {:?}, preference {:?}", s2(a), s2(b), a.cmp(&b), key(a).cmp(&key(b)));
    }
    for v in &c.violations {
        println!("VIOLATION property=C14\n  {}/{}: {}", v.kind, v.signature, v.detail);
    }
    if c.violation_total > 0 { 1 } else { 0 }
}
