//! mon-plugin: C15 — the bot plugin (libchess_bot.so loaded through the stable ABI) applies a
//! move iff it is legal, reports the reference successor, raises the threefold flag exactly on the
//! third occurrence since the board was last set, and proposes legal moves.
//!
//! usage: mon-plugin C15 --plugin <libchess_bot.so> [--tier ..] [--seed N] [--shard I] [--nshards N]
//!                       [--out file] [--journal file] [--small] [--replay file]

use chess_api::{ChessApiRef, ChessEngine};
use chess_bitboard::{Color, Piece, Pos, PromotionPiece};
use chess_engine::Timeout;
use chess_movegen::{Board, ChessMove};
use refmodel::json::{obj, J};
use refmodel::report::{self, Collector};
use refmodel::rng::{fnv, mix3, Rng};
use refmodel::workload::{self, Theme};
use refmodel::*;
use std::cell::Cell;
use std::collections::HashMap;

fn pos(s: u8) -> Pos {
    Pos::from_u8(s).unwrap()
}
fn mv(m: Mv) -> ChessMove {
    ChessMove {
        source: pos(m.from),
        dest: pos(m.to),
        piece: m.promo.and_then(|k| match k {
            Kind::N => Some(PromotionPiece::Knight),
            Kind::B => Some(PromotionPiece::Bishop),
            Kind::R => Some(PromotionPiece::Rook),
            Kind::Q => Some(PromotionPiece::Queen),
            _ => None,
        }),
    }
}
fn mv_back(m: ChessMove) -> Mv {
    Mv {
        from: m.source.to_u8(),
        to: m.dest.to_u8(),
        promo: m.piece.map(|p| match p {
            PromotionPiece::Knight => Kind::N,
            PromotionPiece::Bishop => Kind::B,
            PromotionPiece::Rook => Kind::R,
            PromotionPiece::Queen => Kind::Q,
        }),
    }
}

fn observe(b: &Board) -> Result<Position, String> {
    let mut p = Position::empty();
    for s in 0..64u8 {
        if let Some((c, k)) = b.raw().get(pos(s)) {
            let c = if c == Color::White { Col::W } else { Col::B };
            let k = match k {
                Piece::Pawn => Kind::P,
                Piece::Knight => Kind::N,
                Piece::Bishop => Kind::B,
                Piece::Rook => Kind::R,
                Piece::Queen => Kind::Q,
                Piece::King => Kind::K,
            };
            p.board[s as usize] = Some((c, k));
        }
    }
    p.turn = if b.turn() == Color::White { Col::W } else { Col::B };
    p.half = b.half_move_clock() as u32;
    p.full = b.full_move_clock() as u32;
    // rights and e.p. file: from the Debug rendering when that channel calibrates (refmodel::textobs),
    // otherwise from the FEN writer's fields
    static OK: std::sync::OnceLock<bool> = std::sync::OnceLock::new();
    let channel_ok = *OK.get_or_init(|| {
        refmodel::textobs::calibration_positions().iter().all(|q| match chess_movegen::fen::parse_fen(q.to_fen().as_bytes()) {
            Ok(b) => refmodel::textobs::from_debug_text(&format!("{b:?}")).ok() == Some((q.castle, q.ep)),
            Err(_) => false,
        })
    });
    let from_debug = if channel_ok { refmodel::textobs::from_debug_text(&format!("{b:?}")).ok() } else { None };
    let (castle, ep) = match from_debug {
        Some(x) => x,
        None => {
            DEBUG_FALLBACKS.fetch_add(1, std::sync::atomic::Ordering::Relaxed);
            refmodel::textobs::from_fen_text(&b.to_string())?
        }
    };
    p.castle = castle;
    p.ep = ep;
    Ok(p)
}

static DEBUG_FALLBACKS: std::sync::atomic::AtomicU64 = std::sync::atomic::AtomicU64::new(0);

struct Counting {
    polls: Cell<u64>,
    expire: u64,
}
impl Timeout for Counting {
    fn is_complete(&self) -> bool {
        let k = self.polls.get();
        self.polls.set(k + 1);
        k >= self.expire
    }
}

#[derive(Clone, Debug)]
enum Call {
    SetBoard(String),
    Move(Mv),
    Evaluate(u64),
    Board,
    /// evaluate(k) and, when a legal move is proposed, make_move it (self-play)
    PlayProposed(u64),
    /// set_board to the current position with castling rights removed (0 = all, 1 = the mover's
    /// king side, 2 = the mover's queen side) and without the e.p. marker, then evaluate(k)
    StripEvaluate(u8, u64),
}

impl Call {
    fn text(&self) -> String {
        match self {
            Call::SetBoard(f) => format!("set_board {f}"),
            Call::Move(m) => format!("make_move {}", m.uci()),
            Call::Evaluate(k) => format!("evaluate {k}"),
            Call::Board => "board".into(),
            Call::PlayProposed(k) => format!("play_proposed {k}"),
            Call::StripEvaluate(w, k) => format!("strip_evaluate {w},{k}"),
        }
    }
    fn parse(s: &str) -> Option<Call> {
        let (h, t) = s.split_once(' ').unwrap_or((s, ""));
        Some(match h {
            "set_board" => Call::SetBoard(t.to_string()),
            "make_move" => Call::Move(Mv::parse_uci(t)?),
            "evaluate" => Call::Evaluate(t.parse().ok()?),
            "board" => Call::Board,
            "play_proposed" => Call::PlayProposed(t.parse().ok()?),
            "strip_evaluate" => {
                let (w, k) = t.split_once(',')?;
                Call::StripEvaluate(w.parse().ok()?, k.parse().ok()?)
            }
            _ => return None,
        })
    }
}

/// Reference model of one plugin engine instance.
struct ModelEngine {
    pos: Position,
    occ: HashMap<Identity, u32>,
}

impl ModelEngine {
    fn new() -> Self {
        let pos = Position::standard();
        let mut occ = HashMap::new();
        occ.insert(pos.identity(), 1);
        ModelEngine { pos, occ }
    }
    fn set_board(&mut self, p: Position) {
        self.occ.clear();
        self.occ.insert(p.identity(), 1);
        self.pos = p;
    }
}

struct Failure {
    kind: &'static str,
    sig: String,
    detail: String,
    at: usize,
}

/// Run a call history on engine `e` (fresh or reused) against the model; first divergence wins.
fn execute(e: &mut ChessEngine, m: &mut ModelEngine, calls: &[Call], stats: &mut dyn FnMut(&str)) -> Option<Failure> {
    for (i, call) in calls.iter().enumerate() {
        // the two composite calls expand, at run time, into primitive ones on the current position
        let expanded: Vec<Call> = match call {
            Call::PlayProposed(k) => {
                stats("call:play_proposed");
                let t = Counting { polls: Cell::new(0), expire: *k };
                let (om, _score) = e.evaluate(&t);
                match om.map(mv_back) {
                    Some(x) if !m.pos.is_legal(x) => {
                        return Some(Failure {
                            kind: "proposed-move-illegal",
                            sig: "self-play".into(),
                            detail: format!("evaluate({k}) in {} proposed {} which is not legal", m.pos.to_fen(), x.uci()),
                            at: i,
                        });
                    }
                    Some(x) => {
                        stats("self-play:move-played");
                        if m.pos.is_castle(x) {
                            stats("self-play:castled");
                        }
                        vec![Call::Move(x)]
                    }
                    None => vec![Call::Board],
                }
            }
            Call::StripEvaluate(which, k) => {
                let mut v = m.pos.clone();
                let base = if v.turn == Col::W { 0 } else { 2 };
                match which {
                    0 => v.castle = [false; 4],
                    1 => v.castle[base] = false,
                    _ => v.castle[base + 1] = false,
                }
                v.ep = None;
                if v == m.pos || v.chess_root_ok().is_err() {
                    stats("strip:nothing-to-strip");
                    vec![Call::Evaluate(*k)]
                } else {
                    stats("strip:variant-evaluated");
                    vec![Call::SetBoard(v.to_fen()), Call::Evaluate(*k)]
                }
            }
            other => vec![other.clone()],
        };
        for call in &expanded {
            if let Some(f) = execute_one(e, m, call, i, stats) {
                return Some(f);
            }
        }
    }
    None
}

fn execute_one(e: &mut ChessEngine, m: &mut ModelEngine, call: &Call, i: usize, stats: &mut dyn FnMut(&str)) -> Option<Failure> {
    {
        match call {
            Call::PlayProposed(_) | Call::StripEvaluate(..) => unreachable!("composite calls are expanded by execute"),
            Call::SetBoard(fen) => {
                stats("call:set_board");
                let Ok(p) = Position::from_fen(fen) else { return None };
                let Ok(b) = chess_movegen::fen::parse_fen(fen.as_bytes()) else { return None };
                e.set_board(b);
                m.set_board(p);
            }
            Call::Board => {
                stats("call:board");
            }
            Call::Move(x) => {
                let legal = m.pos.is_legal(*x);
                stats(if legal { "call:make_move-legal" } else { "call:make_move-illegal" });
                let r = e.make_move(mv(*x));
                if r.is_valid != legal {
                    return Some(Failure {
                        kind: "legality-gate",
                        sig: if legal { "legal-move-rejected".into() } else { "illegal-move-accepted".into() },
                        detail: format!("make_move({}) in {} reported valid = {}, the move is {}", x.uci(), m.pos.to_fen(), r.is_valid, if legal { "legal" } else { "illegal" }),
                        at: i,
                    });
                }
                let expected_flag = if legal {
                    let next = m.pos.apply(*x);
                    let n = m.occ.entry(next.identity()).or_insert(0);
                    *n += 1;
                    let n = *n;
                    m.pos = next;
                    stats(match n {
                        1 => "occurrence:1st",
                        2 => "occurrence:2nd",
                        3 => "occurrence:3rd",
                        4 => "occurrence:4th",
                        _ => "occurrence:5th+",
                    });
                    n == 3
                } else {
                    false
                };
                if r.is_three_fold_draw != expected_flag {
                    let n = m.occ.get(&m.pos.identity()).copied().unwrap_or(0);
                    return Some(Failure {
                        kind: "threefold-flag",
                        sig: if expected_flag { "third-occurrence-missed".into() } else { format!("flag-raised-on-occurrence-{}", n.min(5)) },
                        detail: format!(
                            "make_move({}) -> {}: is_three_fold_draw = {}, but this is occurrence #{n} of the position since the board was last set",
                            x.uci(),
                            m.pos.to_fen(),
                            r.is_three_fold_draw
                        ),
                        at: i,
                    });
                }
            }
            Call::Evaluate(k) => {
                stats("call:evaluate");
                let t = Counting { polls: Cell::new(0), expire: *k };
                let (om, _score) = e.evaluate(&t);
                if let Some(x) = om {
                    let x = mv_back(x);
                    if !m.pos.is_legal(x) {
                        return Some(Failure {
                            kind: "proposed-move-illegal",
                            sig: "evaluate".into(),
                            detail: format!("evaluate({k}) in {} proposed {} which is not legal", m.pos.to_fen(), x.uci()),
                            at: i,
                        });
                    }
                    stats("evaluate:proposed-a-move");
                }
            }
        }
        // after every call: the reported board equals the reference position
        let b = e.board();
        match observe(&b) {
            Ok(p) => {
                if p != m.pos {
                    return Some(Failure {
                        kind: "reported-board-differs",
                        sig: match call {
                            Call::Move(x) if !m.pos.is_legal(*x) => "after-call".into(),
                            Call::Move(_) => "after-move".into(),
                            Call::SetBoard(_) => "after-set_board".into(),
                            Call::Evaluate(_) => "after-evaluate".into(),
                            Call::Board => "after-board".into(),
                            Call::PlayProposed(_) | Call::StripEvaluate(..) => "after-call".into(),
                        },
                        detail: format!("after {} the plugin reports {}, the reference position is {}", call.text(), p.to_fen(), m.pos.to_fen()),
                        at: i,
                    });
                }
                if b.to_string() != m.pos.to_fen() && m.pos.half <= 9999 && m.pos.full <= 9999 {
                    return Some(Failure {
                        kind: "reported-board-differs",
                        sig: "display".into(),
                        detail: format!("after {} the plugin's board prints {:?}, expected {:?}", call.text(), b.to_string(), m.pos.to_fen()),
                        at: i,
                    });
                }
            }
            Err(er) => return Some(Failure { kind: "reported-board-differs", sig: "unobservable".into(), detail: er, at: i }),
        }
    }
    None
}

fn gen_history(rng: &mut Rng, corpus: &[Position], long: bool) -> Vec<Call> {
    let mut calls = Vec::new();
    let mut model = ModelEngine::new();
    let n = if long { rng.range(300, 1200) } else { rng.range(10, 120) } as usize;
    let mut prev_own: [Option<Mv>; 2] = [None, None];
    let mut shuffle_bias: u64 = *rng.pick(&[0u64, 50, 400, 400, 2000]);
    let start_with_set = rng.chance(2, 3);
    for i in 0..n {
        let r = rng.below(100);
        if (i == 0 && start_with_set) || r < 2 {
            // set_board
            let p = match rng.below(4) {
                0 => Position::standard(),
                1 => rng.pick(corpus).clone(),
                2 => {
                    let t = *rng.pick(&[Theme::Sparse, Theme::Mid, Theme::Castle, Theme::PawnRace, Theme::MatingNet]);
                    workload::random_placement(rng, t, false).unwrap_or_else(Position::standard)
                }
                _ => model.pos.clone(),
            };
            if p.chess_root_ok().is_err() || p.half > 9000 || p.full > 9000 {
                continue;
            }
            calls.push(Call::SetBoard(p.to_fen()));
            model.set_board(p);
            prev_own = [None, None];
            shuffle_bias = *rng.pick(&[0u64, 50, 400, 400, 2000]);
            continue;
        }
        if r < 8 {
            // illegal / near-legal move
            let legal = model.pos.legal_moves();
            let cand: Mv = match rng.below(3) {
                0 => {
                    let ps = model.pos.pseudo_moves();
                    let ill: Vec<Mv> = ps.into_iter().filter(|m| !legal.contains(m)).collect();
                    if ill.is_empty() {
                        Mv { from: rng.below(64) as u8, to: rng.below(64) as u8, promo: None }
                    } else {
                        *rng.pick(&ill)
                    }
                }
                1 if !legal.is_empty() => {
                    let mut m = *rng.pick(&legal);
                    m.promo = if m.promo.is_some() { None } else { Some(Kind::Q) };
                    m
                }
                _ => Mv { from: rng.below(64) as u8, to: rng.below(64) as u8, promo: *rng.pick(&[None, Some(Kind::N)]) },
            };
            if !legal.contains(&cand) {
                calls.push(Call::Move(cand));
            }
            continue;
        }
        if r < 10 {
            calls.push(Call::Evaluate(rng.below(if long { 60 } else { 400 })));
            continue;
        }
        if r < 12 {
            calls.push(Call::Board);
            continue;
        }
        let legal = model.pos.legal_moves();
        if legal.is_empty() {
            // game over: install something new
            let p = rng.pick(corpus).clone();
            if p.chess_root_ok().is_ok() {
                calls.push(Call::SetBoard(p.to_fen()));
                model.set_board(p);
                prev_own = [None, None];
            }
            continue;
        }
        let m = workload::choose_move(rng, &model.pos, &legal, prev_own[model.pos.turn.idx()], shuffle_bias);
        prev_own[model.pos.turn.idx()] = Some(m);
        let next = model.pos.apply(m);
        *model.occ.entry(next.identity()).or_insert(0) += 1;
        model.pos = next;
        calls.push(Call::Move(m));
    }
    calls
}

/// The classic shuffle from the start position: Nf3 Nf6 Ng1 Ng8 repeated `reps` times.
fn knight_shuffle(reps: usize, set_first: bool) -> Vec<Call> {
    let mut c = Vec::new();
    if set_first {
        c.push(Call::SetBoard(Position::standard().to_fen()));
    }
    for _ in 0..reps {
        for m in ["g1f3", "g8f6", "f3g1", "f6g8"] {
            c.push(Call::Move(Mv::parse_uci(m).unwrap()));
        }
    }
    c
}

struct Args {
    cmd: String,
    tier: String,
    seed: u64,
    shard: u64,
    nshards: u64,
    out: Option<String>,
    journal: Option<String>,
    small: bool,
    replay: Option<String>,
    plugin: String,
    scale: f64,
    rest: Vec<String>,
}

fn run_case(c: &mut Collector, api: &ChessApiRef, calls: &[Call], label: &str, reuse: Option<(&mut ChessEngine, &mut ModelEngine)>) {
    c.eval();
    c.count(&format!("histories:{label}"));
    c.add("calls", calls.len() as u64);
    c.distinct(fnv(calls.iter().map(|x| x.text()).collect::<Vec<_>>().join(";").as_bytes()));
    c.journal(&format!("history {label} [{}]", calls.iter().take(400).map(|x| x.text()).collect::<Vec<_>>().join("; ")));
    let mut counts: Vec<String> = Vec::new();
    let failure = {
        let mut st = |k: &str| counts.push(k.to_string());
        match reuse {
            Some((e, m)) => execute(e, m, calls, &mut st),
            None => {
                let mut e = api.new_engine();
                let mut m = ModelEngine::new();
                execute(&mut e, &mut m, calls, &mut st)
            }
        }
    };
    for k in counts {
        c.tag(&k);
    }
    if let Some(f) = failure {
        // shrink on fresh engines: keep a prefix up to the failing call, then drop calls while the
        // same kind of failure remains
        let mut cur: Vec<Call> = calls[..=f.at.min(calls.len() - 1)].to_vec();
        let fails = |cs: &[Call]| -> Option<Failure> {
            let mut e = api.new_engine();
            let mut m = ModelEngine::new();
            let mut nop = |_: &str| {};
            execute(&mut e, &mut m, cs, &mut nop).filter(|g| g.kind == f.kind)
        };
        let mut best = fails(&cur);
        if best.is_some() && cur.len() <= 400 {
            let mut i = 0;
            while i < cur.len() {
                let mut t = cur.clone();
                t.remove(i);
                if let Some(g) = fails(&t) {
                    cur = t;
                    best = Some(g);
                } else {
                    i += 1;
                }
            }
        }
        let g = best.unwrap_or(f);
        let texts: Vec<String> = cur.iter().map(|x| x.text()).collect();
        c.violation(
            g.kind,
            &g.sig,
            format!("history [{}] -> {}", texts.join("; "), g.detail),
            obj().set("calls", texts).set("label", label),
        );
    }
}

fn main() {
    let mut a = Args {
        cmd: String::new(),
        tier: "quick".into(),
        seed: 1,
        shard: 0,
        nshards: 1,
        out: None,
        journal: None,
        small: false,
        replay: None,
        plugin: String::new(),
        scale: 1.0,
        rest: vec![],
    };
    let mut it = std::env::args().skip(1);
    a.cmd = it.next().unwrap_or_default();
    while let Some(x) = it.next() {
        match x.as_str() {
            "--tier" => a.tier = it.next().unwrap(),
            "--seed" => a.seed = it.next().unwrap().parse().unwrap(),
            "--shard" => a.shard = it.next().unwrap().parse().unwrap(),
            "--nshards" => a.nshards = it.next().unwrap().parse().unwrap(),
            "--out" => a.out = it.next(),
            "--journal" => a.journal = it.next(),
            "--scale" => a.scale = it.next().unwrap().parse().unwrap(),
            "--small" => a.small = true,
            "--replay" => a.replay = it.next(),
            "--plugin" => a.plugin = it.next().unwrap(),
            _ => a.rest.push(x),
        }
    }
    if a.cmd == "merge-hashes" {
        println!("{}", report::merge_hash_files(&a.rest));
        return;
    }
    if a.cmd != "C15" {
        eprintln!("unknown command {:?}", a.cmd);
        std::process::exit(2);
    }
    if let Err(e) = refmodel::self_test(false) {
        println!("INCONCLUSIVE: reference model self-test failed: {e}");
        std::process::exit(3);
    }
    let api = match ChessApiRef::load_from_file(std::path::Path::new(&a.plugin)) {
        Ok(x) => x,
        Err(e) => {
            println!("INCONCLUSIVE: cannot load plugin {}: {e}", a.plugin);
            std::process::exit(3);
        }
    };
    let mut c = Collector::new("C15", a.journal.as_deref());
    if let Some(rp) = &a.replay {
        let text = std::fs::read_to_string(rp).expect("read replay");
        let j = J::parse(&text).expect("parse replay");
        let calls: Vec<Call> = j
            .get("replay")
            .and_then(|r| r.get("calls"))
            .and_then(|x| x.as_arr())
            .map(|v| v.iter().filter_map(|s| s.as_str().and_then(Call::parse)).collect())
            .unwrap_or_default();
        run_case(&mut c, &api, &calls, "replay", None);
        println!("replayed {} calls: {} violation(s)", calls.len(), c.violation_total);
        for v in &c.violations {
            println!("VIOLATION property=C15 replay={rp}\n  {}/{}: {}", v.kind, v.signature, v.detail);
        }
        std::process::exit(if c.violation_total > 0 { 1 } else { 0 });
    }
    let thorough = a.tier == "thorough";
    let corpus: Vec<Position> = workload::corpus().into_iter().filter(|p| p.chess_root_ok().is_ok()).collect();
    // self-play: the bot answers its own proposals from the initial position (and from a few other
    // starts), so whatever it prefers to play - including anything it knows by heart - is what gets
    // visited; after j plies the same placement is offered again with castling rights and the e.p.
    // marker removed: the proposal must be legal THERE
    {
        let depth = if a.small { 3 } else { 22 };
        let mut starts: Vec<Option<String>> = vec![None];
        if !a.small {
            let mut srng = Rng::new(mix3(a.seed, 0x5E1F, 1));
            for _ in 0..3 {
                starts.push(Some(srng.pick(&corpus).to_fen()));
            }
        }
        let mut n = 0u64;
        for (si, start) in starts.iter().enumerate() {
            for j in 0..=depth {
                for which in 0..3u8 {
                    n += 1;
                    if n % a.nshards != a.shard {
                        continue;
                    }
                    let k = [120u64, 400, 40][(j + si) % 3];
                    let mut calls: Vec<Call> = Vec::new();
                    if let Some(f) = start {
                        calls.push(Call::SetBoard(f.clone()));
                    }
                    for _ in 0..j {
                        calls.push(Call::PlayProposed(k));
                    }
                    calls.push(Call::StripEvaluate(which, k));
                    calls.push(Call::PlayProposed(k));
                    run_case(&mut c, &api, &calls, "self-play", None);
                }
            }
        }
    }
    // fixed histories
    if a.shard == 0 {
        for (reps, set_first) in [(2usize, true), (2, false), (3, true), (3, false), (5, true), (70, true), (80, false), (300, true)] {
            if a.small && reps > 5 {
                continue;
            }
            run_case(&mut c, &api, &knight_shuffle(reps, set_first), "knight-shuffle", None);
        }
        // repetition that must NOT count: castling right lost in between, e.p. marker differs
        let u = |s: &str| Call::Move(Mv::parse_uci(s).unwrap());
        run_case(
            &mut c,
            &api,
            &[
                Call::SetBoard("r3k2r/8/8/8/8/8/8/R3K2R w KQkq - 0 1".into()),
                u("a1b1"), u("a8b8"), u("b1a1"), u("b8a8"), u("a1b1"), u("a8b8"), u("b1a1"), u("b8a8"), u("a1b1"), u("a8b8"), u("b1a1"), u("b8a8"),
            ],
            "rights-change-breaks-repetition",
            None,
        );
        run_case(
            &mut c,
            &api,
            &[
                Call::SetBoard("4k3/8/8/8/1p6/8/P7/4K3 w - - 0 1".into()),
                u("a2a4"), u("e8d8"), u("e1d1"), u("d8e8"), u("d1e1"), u("e8d8"), u("e1d1"), u("d8e8"), u("d1e1"), u("e8d8"), u("e1d1"), u("d8e8"), u("d1e1"),
            ],
            "ep-marker-breaks-repetition",
            None,
        );
    }
    // crafted rare-interaction families (e.p. x line geometry, frozen e.p., castling x attackers,
    // promotions): install the pre-position, play the crafted moves, offer EVERY pseudo-legal but
    // illegal move (must be refused) and then the special legal moves (must be applied)
    if !a.small {
        let mut crafted = Vec::new();
        workload::ep_family(a.shard, a.nshards, if thorough { 4 } else { 24 }, &mut crafted);
        let mut frng = Rng::new(0xF20E + a.shard);
        workload::ep_frozen_family(&mut frng, a.shard, a.nshards, if thorough { 16 } else { 64 }, &mut crafted);
        workload::ep_discovery_family(a.shard, a.nshards, if thorough { 2 } else { 8 }, &mut crafted);
        let mut dprng = Rng::new(0xD0B1 + a.shard);
        workload::double_pin_family(&mut dprng, if thorough { 300 } else { 60 }, &mut crafted);
        let mut other = Vec::new();
        workload::castle_family(&mut other);
        workload::promo_family(&mut other);
        workload::clock_terminal_family(&mut other);
        let stride = if thorough { 2 } else { 12 };
        for (i, cr) in other.into_iter().enumerate() {
            if i as u64 % (a.nshards * stride) == a.shard {
                crafted.push(cr);
            }
        }
        for cr in &crafted {
            let mut calls = vec![Call::SetBoard(cr.pre.to_fen())];
            let mut p = cr.pre.clone();
            for m in &cr.moves {
                calls.push(Call::Move(*m));
                p = p.apply(*m);
            }
            if p.half > 9000 || p.full > 9000 {
                continue;
            }
            let legal = p.legal_moves();
            for m in p.pseudo_moves() {
                if !legal.contains(&m) {
                    calls.push(Call::Move(m));
                }
            }
            let special: Vec<Mv> = legal.iter().copied().filter(|m| p.is_ep_capture(*m) || p.is_castle(*m) || m.promo.is_some()).take(6).collect();
            for (j, m) in special.iter().enumerate() {
                if j > 0 {
                    calls.push(Call::SetBoard(p.to_fen()));
                }
                calls.push(Call::Move(*m));
                // the position right after the special move: its checks / pins were computed
                // incrementally, so every pseudo-legal but illegal reply is offered too
                let q = p.apply(*m);
                let ql = q.legal_moves();
                for r in q.pseudo_moves() {
                    if !ql.contains(&r) {
                        calls.push(Call::Move(r));
                    }
                }
            }
            run_case(&mut c, &api, &calls, cr.family, None);
        }
    }
    let n_hist = ((if thorough { 4000.0 } else if a.small { 6.0 } else { 500.0 }) * a.scale).max(2.0) as u64;
    for h in 0..n_hist {
        let mut rng = Rng::new(mix3(a.seed, a.shard, h));
        let long = h % 25 == 24 && !a.small;
        let calls = gen_history(&mut rng, &corpus, long);
        run_case(&mut c, &api, &calls, if long { "random-long" } else { "random" }, None);
    }
    // several engines from the same library, interleaved: each owns its table
    let n_inter = if a.small { 2 } else if thorough { 300 } else { 40 };
    for h in 0..n_inter {
        let mut rng = Rng::new(mix3(a.seed, a.shard, 0x1A7E0000 + h));
        let k = rng.range(2, 4) as usize;
        let mut engines: Vec<(ChessEngine, ModelEngine)> = (0..k).map(|_| (api.new_engine(), ModelEngine::new())).collect();
        let hist: Vec<Vec<Call>> = (0..k).map(|_| gen_history(&mut rng, &corpus, false)).collect();
        let mut idx = vec![0usize; k];
        loop {
            let alive: Vec<usize> = (0..k).filter(|i| idx[*i] < hist[*i].len()).collect();
            if alive.is_empty() {
                break;
            }
            let i = *rng.pick(&alive);
            let chunk = (rng.range(1, 6) as usize).min(hist[i].len() - idx[i]);
            let slice = hist[i][idx[i]..idx[i] + chunk].to_vec();
            idx[i] += chunk;
            let (e, m) = &mut engines[i];
            let before = c.violation_total;
            run_case(&mut c, &api, &slice, "interleaved-engines", Some((e, m)));
            if c.violation_total > before {
                break;
            }
        }
    }
    if c.samples.is_empty() {
        let mut rng = Rng::new(mix3(a.seed, a.shard, 0x5A));
        let calls = gen_history(&mut rng, &corpus, false);
        c.sample(obj().set("calls", calls.iter().take(30).map(|x| x.text()).collect::<Vec<_>>()));
    }
    let mut j = c.to_json();
    j.put("observe_debug_fallbacks", DEBUG_FALLBACKS.load(std::sync::atomic::Ordering::Relaxed));
    let text = j.dump();
    match &a.out {
        Some(p) => {
            std::fs::write(p, &text).expect("write result");
            c.write_hashes(&format!("{p}.hashes"));
        }
        None => println!("{text}"),
    }
}
