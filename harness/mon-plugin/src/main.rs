fn main(){}
