//! C08: slider attack lookup equals ray casting for every square and occupancy.

use crate::*;
use refmodel::json::obj;
use refmodel::rng::{fnv_mix, mix3, Rng};

fn subsets_of(mask: u64, mut f: impl FnMut(u64)) {
    // Carry-Rippler enumeration of all subsets of `mask`
    let mut sub = 0u64;
    loop {
        f(sub);
        sub = sub.wrapping_sub(mask) & mask;
        if sub == 0 {
            break;
        }
    }
}

pub fn run(c: &mut Collector, a: &Args) {
    let mut rng = Rng::new(mix3(a.seed, a.shard, 0xC08));
    for s in 0..64u8 {
        if s as u64 % a.nshards != a.shard {
            continue;
        }
        let (f, r) = ((s % 8) as i32, (s / 8) as i32);
        for (name, dirs) in [("rook", &ROOK_DIRS), ("bishop", &BISHOP_DIRS)] {
            let rays: u64 = dirs.iter().map(|&(df, dr)| full_ray(f, r, df, dr)).fold(0, |x, y| x | y);
            // under Miri only the interior ("relevant") ray squares are enumerated, which is what
            // selects the table slot; edge squares are covered by the paddings below
            let enum_mask = if a.small {
                // each ray without its last (edge) square: the occupancy bits that select the slot
                dirs.iter()
                    .map(|&(df, dr)| {
                        let ray = full_ray(f, r, df, dr);
                        let mut last = 0u64;
                        let (mut x, mut y) = (f + df, r + dr);
                        while (0..8).contains(&x) && (0..8).contains(&y) {
                            last = 1u64 << (y * 8 + x);
                            x += df;
                            y += dr;
                        }
                        ray & !last
                    })
                    .fold(0, |x, y| x | y)
            } else {
                rays
            };
            let off_ray = !rays & !(1u64 << s);
            c.journal(&format!("{name} {s}"));
            subsets_of(enum_mask, |sub| {
                let paddings: Vec<u64> = if a.small {
                    vec![0, off_ray & rng.next_u64()]
                } else {
                    vec![0, off_ray, off_ray & rng.next_u64(), off_ray & rng.next_u64() & rng.next_u64(), (off_ray & rng.next_u64()) | (1u64 << s), (rays & !enum_mask) | (off_ray & rng.next_u64())]
                };
                for (pi, pad) in paddings.into_iter().enumerate() {
                    let occ = sub | pad;
                    let want: u64 = dirs.iter().map(|&(df, dr)| ray_attack(f, r, df, dr, occ)).fold(0, |x, y| x | y);
                    let got = if name == "rook" { chess_lookup::rook_moves(pos(s), bb(occ)) } else { chess_lookup::bishop_moves(pos(s), bb(occ)) }.to_u64();
                    c.eval();
                    if pi == 0 {
                        c.count(if name == "rook" { "rook-on-ray-subsets" } else { "bishop-on-ray-subsets" });
                        if sub != 0 {
                            c.distinct(fnv_mix(0x9E3779B97F4A7C15u64.wrapping_mul(s as u64 + if name == "rook" { 1 } else { 65 }), sub));
                        }
                    } else {
                        c.count("off-ray-padding-lookups");
                    }
                    if got != want {
                        c.violation(
                            "lookup-differs-from-ray-casting",
                            name,
                            format!("{name}_moves({:?}, {occ:#018x}) = {got:#018x}, ray casting gives {want:#018x}", pos(s)),
                            obj().set("piece", name).set("square", s as u64).set("occupancy", format!("{occ:#018x}")),
                        );
                        return;
                    }
                }
            });
            // only off-ray occupancies
            for _ in 0..(if a.small { 4 } else { 200 }) {
                let occ = off_ray & rng.next_u64();
                let want = rays;
                let got = if name == "rook" { chess_lookup::rook_moves(pos(s), bb(occ)) } else { chess_lookup::bishop_moves(pos(s), bb(occ)) }.to_u64();
                c.eval();
                c.count("only-off-ray-occupancies");
                if got != want {
                    c.violation(
                        "off-ray-squares-influence-lookup",
                        name,
                        format!("{name}_moves({:?}, {occ:#018x}) = {got:#018x}, expected the full rays {want:#018x}", pos(s)),
                        obj().set("piece", name).set("square", s as u64).set("occupancy", format!("{occ:#018x}")),
                    );
                    break;
                }
            }
            // fully random occupancies
            for _ in 0..(if a.small { 8 } else { 3000 }) {
                let occ = match rng.below(3) {
                    0 => rng.next_u64(),
                    1 => rng.next_u64() & rng.next_u64(),
                    _ => rng.next_u64() | rng.next_u64(),
                };
                let want: u64 = dirs.iter().map(|&(df, dr)| ray_attack(f, r, df, dr, occ)).fold(0, |x, y| x | y);
                let got = if name == "rook" { chess_lookup::rook_moves(pos(s), bb(occ)) } else { chess_lookup::bishop_moves(pos(s), bb(occ)) }.to_u64();
                c.eval();
                c.count("random-occupancies");
                if got != want {
                    c.violation(
                        "lookup-differs-from-ray-casting",
                        name,
                        format!("{name}_moves({:?}, {occ:#018x}) = {got:#018x}, ray casting gives {want:#018x}", pos(s)),
                        obj().set("piece", name).set("square", s as u64).set("occupancy", format!("{occ:#018x}")),
                    );
                    break;
                }
            }
        }
        if c.want_sample() {
            let occ = rng.next_u64() & rng.next_u64();
            c.sample(obj().set("square", format!("{:?}", pos(s))).set("occupancy", format!("{occ:#018x}")).set("rook_moves", format!("{:#018x}", chess_lookup::rook_moves(pos(s), bb(occ)).to_u64())));
        }
    }
}
