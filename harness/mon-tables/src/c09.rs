//! C09: geometry tables and constants equal their definitions (integer file/rank arithmetic,
//! no wrap-around by construction), and agree with the table generator's functions.

use crate::*;
use chess_bitboard::{Color, File, Rank};
use refmodel::json::obj;

fn leaper(f: i32, r: i32, deltas: &[(i32, i32)]) -> u64 {
    deltas.iter().map(|&(df, dr)| bit(f + df, r + dr)).fold(0, |a, b| a | b)
}

const KNIGHT: [(i32, i32); 8] = [(1, 2), (2, 1), (2, -1), (1, -2), (-1, -2), (-2, -1), (-2, 1), (-1, 2)];
const KING: [(i32, i32); 8] = [(1, 0), (1, 1), (0, 1), (-1, 1), (-1, 0), (-1, -1), (0, -1), (1, -1)];

fn between_def(a: u8, b: u8) -> u64 {
    let (af, ar, bf, br) = ((a % 8) as i32, (a / 8) as i32, (b % 8) as i32, (b / 8) as i32);
    let (df, dr) = (bf - af, br - ar);
    if (df, dr) == (0, 0) || !(df == 0 || dr == 0 || df.abs() == dr.abs()) {
        return 0;
    }
    let (sf, sr) = (df.signum(), dr.signum());
    let mut out = 0;
    let (mut f, mut r) = (af + sf, ar + sr);
    while (f, r) != (bf, br) {
        out |= bit(f, r);
        f += sf;
        r += sr;
    }
    out
}

fn line_def(a: u8, b: u8) -> u64 {
    let (af, ar, bf, br) = ((a % 8) as i32, (a / 8) as i32, (b % 8) as i32, (b / 8) as i32);
    let (df, dr) = (bf - af, br - ar);
    if (df, dr) == (0, 0) || !(df == 0 || dr == 0 || df.abs() == dr.abs()) {
        return 0;
    }
    let (sf, sr) = (df.signum(), dr.signum());
    full_ray(af, ar, sf, sr) | full_ray(af, ar, -sf, -sr) | bit(af, ar)
}

macro_rules! expect {
    ($c:expr, $what:expr, $sig:expr, $got:expr, $want:expr, $ctx:expr) => {{
        $c.eval();
        $c.count($what);
        let (g, w) = ($got, $want);
        if g != w {
            $c.violation(
                "table-differs-from-definition",
                $sig,
                format!("{} {}: table/constant gives {:#x}, definition gives {:#x}", $what, $ctx, g, w),
                obj().set("what", $what).set("context", $ctx),
            );
        }
    }};
}

pub fn run(c: &mut Collector, a: &Args) {
    if a.shard != 0 {
        // the whole enumeration takes well under a second; one worker per flavour does it all
        c.eval();
        c.notes.push("C09 is enumerated completely by shard 0".into());
        c.distinct(1);
        c.distinct(2);
        return;
    }
    let gen_between = chess_lookup_generator::between();
    let gen_line = chess_lookup_generator::line();
    for s in 0..64u8 {
        let (f, r) = ((s % 8) as i32, (s / 8) as i32);
        let p = pos(s);
        let ctx = format!("{p:?}");
        c.journal(&format!("square {s}"));
        c.distinct(s as u64 + 1000);
        let kn = leaper(f, r, &KNIGHT);
        let kg = leaper(f, r, &KING);
        expect!(c, "knight_moves", "knight", chess_lookup::knight_moves(p).to_u64(), kn, ctx.clone());
        expect!(c, "king_moves", "king", chess_lookup::king_moves(p).to_u64(), kg, ctx.clone());
        expect!(c, "generator.knight_moves", "generator", chess_lookup_generator::knight_moves(p).to_u64(), kn, ctx.clone());
        expect!(c, "generator.king_moves", "generator", chess_lookup_generator::king_moves(p).to_u64(), kg, ctx.clone());
        let rr: u64 = ROOK_DIRS.iter().map(|&(df, dr)| full_ray(f, r, df, dr)).fold(0, |x, y| x | y);
        let br: u64 = BISHOP_DIRS.iter().map(|&(df, dr)| full_ray(f, r, df, dr)).fold(0, |x, y| x | y);
        expect!(c, "rook_rays", "rook-rays", chess_lookup::rook_rays(p).to_u64(), rr, ctx.clone());
        expect!(c, "bishop_rays", "bishop-rays", chess_lookup::bishop_rays(p).to_u64(), br, ctx.clone());
        expect!(c, "generator.rook_rays", "generator", chess_lookup_generator::rook_rays(p).to_u64(), rr, ctx.clone());
        expect!(c, "generator.bishop_rays", "generator", chess_lookup_generator::bishop_rays(p).to_u64(), br, ctx.clone());
        let gen_att = chess_lookup_generator::pawn_attacks(p);
        let gen_q = chess_lookup_generator::pawn_quiets(p);
        for (col, fwd, start) in [(Color::White, 1i32, 1i32), (Color::Black, -1, 6)] {
            let cctx = format!("{p:?} {col:?}");
            let att = bit(f - 1, r + fwd) | bit(f + 1, r + fwd);
            expect!(c, "pawn_attacks_moves", "pawn-capture", chess_lookup::pawn_attacks_moves(p, col).to_u64(), att, cctx.clone());
            expect!(c, "generator.pawn_attacks", "generator", gen_att[col].to_u64(), att, cctx.clone());
            let one = bit(f, r + fwd);
            let two = if r == start { bit(f, r + 2 * fwd) } else { 0 };
            expect!(c, "generator.pawn_quiets", "generator", gen_q[col].to_u64(), one | two, cctx.clone());
            // every occupancy of the (at most four) relevant squares, with padding elsewhere
            let relevant: Vec<u64> = [one, two, bit(f - 1, r + fwd), bit(f + 1, r + fwd)].into_iter().filter(|b| *b != 0).collect();
            for m in 0..(1u32 << relevant.len()) {
                for pad in [0u64, 0x5a5a_a5a5_5a5a_a5a5, !0u64] {
                    let rel_mask: u64 = relevant.iter().fold(0, |x, y| x | y);
                    let mut occ = pad & !rel_mask;
                    for (i, b) in relevant.iter().enumerate() {
                        if m & (1 << i) != 0 {
                            occ |= b;
                        }
                    }
                    let want_q = if one == 0 || occ & one != 0 {
                        0
                    } else {
                        one | if two != 0 && occ & two == 0 { two } else { 0 }
                    };
                    let want_a = att & occ;
                    let octx = format!("{p:?} {col:?} occ={occ:#018x}");
                    expect!(c, "pawn_quiets(occupancy)", "pawn-push", chess_lookup::pawn_quiets(p, col, bb(occ)).to_u64(), want_q, octx.clone());
                    expect!(c, "pawn_attacks(occupancy)", "pawn-capture", chess_lookup::pawn_attacks(p, col, bb(occ)).to_u64(), want_a, octx.clone());
                    expect!(c, "pawn_moves(occupancy)", "pawn-moves", chess_lookup::pawn_moves(p, col, bb(occ)).to_u64(), want_q | want_a, octx.clone());
                }
            }
        }
        for t in 0..64u8 {
            let q = pos(t);
            let pctx = format!("{p:?},{q:?}");
            c.distinct(((s as u64) << 8 | t as u64) + 5000);
            let bt = between_def(s, t);
            let ln = line_def(s, t);
            expect!(c, "between", "between", chess_lookup::between(p, q).to_u64(), bt, pctx.clone());
            expect!(c, "line", "line", chess_lookup::line(p, q).to_u64(), ln, pctx.clone());
            expect!(c, "generator.between", "generator", gen_between[s as usize * 64 + t as usize].to_u64(), bt, pctx.clone());
            expect!(c, "generator.line", "generator", gen_line[s as usize * 64 + t as usize].to_u64(), ln, pctx.clone());
            let d = (((s % 8) as i32 - (t % 8) as i32).abs()).max(((s / 8) as i32 - (t / 8) as i32).abs()) as u64;
            expect!(c, "distance", "distance", chess_lookup::distance(p, q) as u64, d, pctx.clone());
        }
    }
    for i in 0..8i32 {
        let file_bb = |f: i32| if (0..8).contains(&f) { 0x0101010101010101u64 << f } else { 0 };
        let rank_bb = |r: i32| if (0..8).contains(&r) { 0xffu64 << (8 * r) } else { 0 };
        expect!(c, "ADJACENT_FILES", "adjacent", chess_lookup::ADJACENT_FILES[File::from_u8(i as u8).unwrap()].to_u64(), file_bb(i - 1) | file_bb(i + 1), format!("file {i}"));
        expect!(c, "ADJACENT_RANKS", "adjacent", chess_lookup::ADJACENT_RANKS[Rank::from_u8(i as u8).unwrap()].to_u64(), rank_bb(i - 1) | rank_bb(i + 1), format!("rank {i}"));
    }
    // constants
    let file_bb = |f: i32| 0x0101010101010101u64 << f;
    let rank_bb = |r: i32| 0xffu64 << (8 * r);
    let k = |what: &'static str, got: u64, want: u64, c: &mut Collector| expect!(c, what, "constant", got, want, "constant".to_string());
    k("PAWN_DOUBLE_SOURCE", chess_lookup::PAWN_DOUBLE_SOURCE.to_u64(), rank_bb(1) | rank_bb(6), c);
    k("PAWN_DOUBLE_DEST", chess_lookup::PAWN_DOUBLE_DEST.to_u64(), rank_bb(3) | rank_bb(4), c);
    k("BACKRANK_BB[White]", chess_lookup::BACKRANK_BB[Color::White].to_u64(), rank_bb(0), c);
    k("BACKRANK_BB[Black]", chess_lookup::BACKRANK_BB[Color::Black].to_u64(), rank_bb(7), c);
    k("BACKRANK[White]", chess_lookup::BACKRANK[Color::White] as u64, 0, c);
    k("BACKRANK[Black]", chess_lookup::BACKRANK[Color::Black] as u64, 7, c);
    k("CASTLE_MOVES", chess_lookup::CASTLE_MOVES.to_u64(), bit(2, 0) | bit(4, 0) | bit(6, 0) | bit(2, 7) | bit(4, 7) | bit(6, 7), c);
    k("PAWN_DOUBLE_MOVE[White]", chess_lookup::PAWN_DOUBLE_MOVE[Color::White].to_u64(), rank_bb(1) | rank_bb(3), c);
    k("PAWN_DOUBLE_MOVE[Black]", chess_lookup::PAWN_DOUBLE_MOVE[Color::Black].to_u64(), rank_bb(6) | rank_bb(4), c);
    k("ROOK_CASTLE_QUEENSIDE", chess_lookup::ROOK_CASTLE_QUEENSIDE.to_u64(), file_bb(0) | file_bb(3), c);
    k("ROOK_CASTLE_KINGSIDE", chess_lookup::ROOK_CASTLE_KINGSIDE.to_u64(), file_bb(7) | file_bb(5), c);
    k("PROMOTION_RANK[White]", chess_lookup::PROMOTION_RANK[Color::White] as u64, 7, c);
    k("PROMOTION_RANK[Black]", chess_lookup::PROMOTION_RANK[Color::Black] as u64, 0, c);
    k("PAWN_DOUBLE_MOVE_SOURCE_RANK[White]", chess_lookup::PAWN_DOUBLE_MOVE_SOURCE_RANK[Color::White] as u64, 1, c);
    k("PAWN_DOUBLE_MOVE_SOURCE_RANK[Black]", chess_lookup::PAWN_DOUBLE_MOVE_SOURCE_RANK[Color::Black] as u64, 6, c);
    k("PAWN_DOUBLE_MOVE_DEST_RANK[White]", chess_lookup::PAWN_DOUBLE_MOVE_DEST_RANK[Color::White] as u64, 3, c);
    k("PAWN_DOUBLE_MOVE_DEST_RANK[Black]", chess_lookup::PAWN_DOUBLE_MOVE_DEST_RANK[Color::Black] as u64, 4, c);
    k("KINGSIDE_CASTLE_FILES", chess_lookup::KINGSIDE_CASTLE_FILES.to_u64(), file_bb(5) | file_bb(6), c);
    k("QUEENSIDE_CASTLE_FILES", chess_lookup::QUEENSIDE_CASTLE_FILES.to_u64(), file_bb(1) | file_bb(2) | file_bb(3), c);
    k("KINGSIDE_CASTLE_SAFE_FILES", chess_lookup::KINGSIDE_CASTLE_SAFE_FILES.to_u64(), file_bb(5) | file_bb(6), c);
    k("QUEENSIDE_CASTLE_SAFE_FILES", chess_lookup::QUEENSIDE_CASTLE_SAFE_FILES.to_u64(), file_bb(2) | file_bb(3), c);
    // the e.p. rank constants of the colour type: a capturer of colour c stands on its fifth rank and lands on its sixth
    k("Color::enpassant_pawn_rank[White]", Color::White.enpassant_pawn_rank() as u64, 4, c);
    k("Color::enpassant_pawn_rank[Black]", Color::Black.enpassant_pawn_rank() as u64, 3, c);
    k("Color::enpassant_capture_rank[White]", Color::White.enpassant_capture_rank() as u64, 5, c);
    k("Color::enpassant_capture_rank[Black]", Color::Black.enpassant_capture_rank() as u64, 2, c);
    for (pp, want) in [
        (chess_bitboard::PromotionPiece::Knight, chess_bitboard::Piece::Knight),
        (chess_bitboard::PromotionPiece::Bishop, chess_bitboard::Piece::Bishop),
        (chess_bitboard::PromotionPiece::Rook, chess_bitboard::Piece::Rook),
        (chess_bitboard::PromotionPiece::Queen, chess_bitboard::Piece::Queen),
    ] {
        k("PromotionPiece::to_piece", pp.to_piece() as u64, want as u64, c);
    }
    for i in 0..8usize {
        let (st, en) = if i < 4 { (0u64, 3u64) } else { (7, 5) };
        k("CASTLE_ROOK_START", chess_lookup::CASTLE_ROOK_START[i] as u64, st, c);
        k("CASTLE_ROOK_END", chess_lookup::CASTLE_ROOK_END[i] as u64, en, c);
    }
    c.sample(obj().set("between(A1,H8)", format!("{:#018x}", chess_lookup::between(pos(0), pos(63)).to_u64())).set("line(B1,C3)", format!("{:#018x}", chess_lookup::line(pos(1), pos(18)).to_u64())).set("knight_moves(A1)", format!("{:#018x}", chess_lookup::knight_moves(pos(0)).to_u64())));
}
