//! C16: stable-ABI move and score encodings are lossless.

use crate::*;
use chess_api::{EvaluatedMove, StableChessMove};
use chess_bitboard::PromotionPiece;
use chess_engine::Score;
use chess_movegen::ChessMove;
use refmodel::json::obj;
use refmodel::rng::{mix3, Rng};

fn sc(s: Score) -> String {
    match s {
        Score::Min => "Min".into(),
        Score::Max => "Max".into(),
        Score::Raw(x) => format!("Raw({x})"),
        Score::WhiteMateIn(x) => format!("WhiteMateIn({x})"),
        Score::BlackMateIn(x) => format!("BlackMateIn({x})"),
    }
}

fn check_eval(c: &mut Collector, om: Option<ChessMove>, s: Score) {
    c.eval();
    let e = EvaluatedMove::new(om, s);
    let (m2, s2) = (e.chess_move(), e.score());
    if m2 != om {
        c.violation(
            "optional-move-not-preserved",
            if om.is_none() { "none" } else { "some" },
            format!("EvaluatedMove::new({om:?}, {}).chess_move() = {m2:?}", sc(s)),
            obj().set("move", format!("{om:?}")).set("score", sc(s)),
        );
    }
    if s2 != s {
        c.violation(
            "score-not-preserved",
            &format!("{:?}", s.kind()),
            format!("EvaluatedMove::new({om:?}, {}).score() = {}", sc(s), sc(s2)),
            obj().set("move", format!("{om:?}")).set("score", sc(s)),
        );
    }
}

pub fn run(c: &mut Collector, a: &Args) {
    let promos = [None, Some(PromotionPiece::Knight), Some(PromotionPiece::Bishop), Some(PromotionPiece::Rook), Some(PromotionPiece::Queen)];
    let mut rng = Rng::new(mix3(a.seed, a.shard, 0xC16));
    let rot = [Score::Min, Score::Max, Score::Raw(0), Score::Raw(-1), Score::Raw(i32::MIN), Score::Raw(i32::MAX), Score::WhiteMateIn(1), Score::BlackMateIn(1), Score::WhiteMateIn(65535), Score::BlackMateIn(0)];
    let mut i = 0usize;
    let stride = if a.small { 7 } else { 1 };
    for f in 0..64u8 {
        if f as u64 % a.nshards != a.shard {
            continue;
        }
        c.journal(&format!("moves from {f}"));
        for t in 0..64u8 {
            for p in promos {
                i += 1;
                if i % stride != 0 {
                    continue;
                }
                let m = ChessMove { source: pos(f), dest: pos(t), piece: p };
                c.eval();
                c.count("moves-round-tripped");
                c.distinct(refmodel::rng::fnv(format!("{f}-{t}-{p:?}").as_bytes()));
                let back = ChessMove::from(StableChessMove::from(m));
                if back != m {
                    c.violation("move-not-preserved", &format!("{p:?}"), format!("{m:?} -> stable -> {back:?}"), obj().set("move", format!("{m:?}")));
                }
                check_eval(c, Some(m), rot[i % rot.len()]);
            }
        }
    }
    if a.shard == 0 {
        for s in rot {
            check_eval(c, None, s);
            c.count("absent-move-checks");
        }
    }
    // all 2 x 65536 mate distances
    let dstride = if a.small { 257 } else { 1 };
    let mut d = a.shard;
    while d <= 65535 {
        if d % dstride == 0 || d == 65535 {
            let m = ChessMove { source: pos((d % 64) as u8), dest: pos(((d / 64) % 64) as u8), piece: promos[(d % 5) as usize] };
            check_eval(c, if d % 3 == 0 { None } else { Some(m) }, Score::WhiteMateIn(d as u16));
            check_eval(c, if d % 3 == 1 { None } else { Some(m) }, Score::BlackMateIn(d as u16));
            c.add("mate-distances-checked", 2);
        }
        d += a.nshards;
    }
    // raw scores: extremes, around zero, sampled
    let mut raws: Vec<i32> = vec![i32::MIN, i32::MIN + 1, -1, 0, 1, i32::MAX - 1, i32::MAX, 255, 256, -256, 65535, 65536, -65536];
    // structured values: around every power of two, simple fractions of the extremes, powers of ten
    // (in-band sentinels such as MAX/2, 2^30-1, 10^9 would alias exactly these)
    for bit in 0..31u32 {
        let b = 1i64 << bit;
        for d in [-2i64, -1, 0, 1, 2] {
            for sign in [1i64, -1] {
                let v = sign * (b + d);
                if v >= i32::MIN as i64 && v <= i32::MAX as i64 {
                    raws.push(v as i32);
                }
            }
        }
    }
    for div in [2i32, 3, 4, 5, 7, 8, 10, 16, 100, 1000] {
        for d in [-1i32, 0, 1] {
            raws.push(i32::MAX / div + d);
            raws.push(i32::MIN / div + d);
            raws.push(-(i32::MAX / div) + d);
        }
    }
    let mut ten = 1i64;
    for _ in 0..10 {
        for d in [-1i64, 0, 1] {
            for sign in [1i64, -1] {
                let v = sign * ten + d;
                if v >= i32::MIN as i64 && v <= i32::MAX as i64 {
                    raws.push(v as i32);
                }
            }
        }
        ten *= 10;
    }
    for v in [30000, 32000, 32767, 32768, 100000, 1_000_000, 999_999, 20000, 10000, 9999, 31000, 29000] {
        raws.push(v);
        raws.push(-v);
    }
    for _ in 0..(if a.small { 50 } else { 100_000 / a.nshards.max(1) }) {
        raws.push(rng.next_u64() as i32);
    }
    for (j, r) in raws.into_iter().enumerate() {
        let m = ChessMove { source: pos((j % 64) as u8), dest: pos(((j / 3) % 64) as u8), piece: promos[j % 5] };
        check_eval(c, if j % 4 == 0 { None } else { Some(m) }, Score::Raw(r));
        c.count("raw-scores-checked");
    }
    check_eval(c, None, Score::Min);
    check_eval(c, None, Score::Max);
    c.sample(obj().set("move", "E7->E8=Knight").set("score", "WhiteMateIn(3)").set("round_trip", format!("{:?}", EvaluatedMove::new(Some(ChessMove { source: pos(52), dest: pos(60), piece: Some(PromotionPiece::Knight) }), Score::WhiteMateIn(3)).chess_move())));
}
