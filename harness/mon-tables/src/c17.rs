//! C17: every opening-book line is a legal game; traversal terminates and stays inside the table.

use crate::*;
use chess_lookup::{BookMoves, EMPTY_BOOK_MOVES, INITIAL_BOOOK_MOVES};
use chess_movegen::{Board, ChessMove};
use refmodel::json::obj;
use refmodel::{Mv, Position};
use std::collections::HashSet;

const STEP_CAP: usize = 200_000;

struct Walk<'a> {
    c: &'a mut Collector,
    with_boards: bool,
    nodes: u64,
    leaves: u64,
    max_depth: usize,
    positions: HashSet<u64>,
    stop: bool,
    sample_every: u64,
}

fn line_str(path: &[Mv]) -> String {
    path.iter().map(|m| m.uci()).collect::<Vec<_>>().join(" ")
}

impl Walk<'_> {
    fn visit(&mut self, handle: BookMoves, real: Option<&Board>, model: Option<&Position>, path: &mut Vec<Mv>) {
        if self.stop {
            return;
        }
        self.max_depth = self.max_depth.max(path.len());
        if path.len() > 64 {
            self.c.violation(
                "book-traversal-does-not-terminate",
                "depth",
                format!("line [{}] is deeper than 64 plies: the trie has a cycle or runs outside the table", line_str(&path[..12])),
                obj().set("line", line_str(&path[..12])),
            );
            self.stop = true;
            return;
        }
        // iterating this handle independently must terminate within the table size
        let mut children = Vec::new();
        let mut steps = 0usize;
        for bm in handle {
            steps += 1;
            if steps > STEP_CAP {
                self.c.violation(
                    "book-iteration-does-not-terminate",
                    "iter",
                    format!("children of the node after [{}] exceed {STEP_CAP} entries", line_str(path)),
                    obj().set("line", line_str(path)),
                );
                self.stop = true;
                return;
            }
            children.push(bm);
        }
        if children.is_empty() {
            self.leaves += 1;
        }
        // the other ways of traversing the same node (count, last, nth, fold, size_hint - what the
        // CLI's weighted pick uses) must walk the same entries as repeated next()
        {
            let same = |x: &chess_lookup::BookMove, y: &chess_lookup::BookMove| x.source == y.source && x.dest == y.dest && x.children == y.children;
            let n = children.len();
            let mut wrong: Option<String> = None;
            // from a fresh iterator (taken = 0) and from one resumed after `taken` calls of next()
            // under Miri (iterator-only walk) the resumed comparisons are made at every 7th node, at the
            // root and its children; the fresh-iterator comparison everywhere
            let full = self.with_boards || self.nodes % 7 == 0 || path.len() <= 1;
            'prefixes: for taken in 0..=n {
                if !full && taken > 0 {
                    break;
                }
                let resumed = || {
                    let mut it = handle.into_iter();
                    for _ in 0..taken {
                        it.next();
                    }
                    it
                };
                let rest = &children[taken..];
                let left = rest.len();
                let at = if taken == 0 { String::new() } else { format!("after {taken} next() calls: ") };
                let (lo, hi) = resumed().size_hint();
                if lo > left || hi.map_or(false, |h| h < left) {
                    wrong = Some(format!("{at}size_hint() = ({lo}, {hi:?}) but next() yields {left} more moves"));
                    break;
                }
                let cnt = resumed().count();
                if cnt != left {
                    wrong = Some(format!("{at}count() = {cnt} but next() yields {left} more moves"));
                    break;
                }
                let folded = resumed().fold(0usize, |k, _| k + 1);
                if folded != left {
                    wrong = Some(format!("{at}fold visits {folded} moves but next() yields {left} more"));
                    break;
                }
                match (resumed().last(), rest.last()) {
                    (None, None) => {}
                    (Some(x), Some(y)) if same(&x, y) => {}
                    (x, y) => {
                        wrong = Some(format!("{at}last() = {x:?} but the last move from next() is {y:?}"));
                        break;
                    }
                }
                for k in 0..=left + 1 {
                    let mut it = resumed();
                    let got = it.nth(k);
                    let ok = match (&got, rest.get(k)) {
                        (None, None) => true,
                        (Some(x), Some(y)) => same(x, y) && match (it.next(), rest.get(k + 1)) {
                            (None, None) => true,
                            (Some(p), Some(q)) => same(&p, q),
                            _ => false,
                        },
                        _ => false,
                    };
                    if !ok {
                        wrong = Some(format!("{at}nth({k}) = {got:?} (then next()) differs from the {left} moves next() yields"));
                        break 'prefixes;
                    }
                }
                // far past the end
                for k in [left + 2, left + 15, left + 28, 255, 256, 65_536, usize::MAX] {
                    if resumed().nth(k).is_some() {
                        wrong = Some(format!("{at}nth({k}) returned a move although only {left} remain"));
                        break 'prefixes;
                    }
                }
                self.c.add("traversal-method-comparisons", 5 + left as u64 + 7);
            }
            if let Some(w) = wrong {
                self.c.violation(
                    "book-traversal-methods-disagree",
                    "iter",
                    format!("node after [{}]: {w}", line_str(path)),
                    obj().set("line", line_str(path)),
                );
                self.stop = true;
                return;
            }
        }
        for bm in children {
            self.nodes += 1;
            self.c.eval();
            if self.nodes % 512 == 0 {
                self.c.journal(&format!("book node {} after [{}]", self.nodes, line_str(path)));
            }
            let m = Mv { from: bm.source.to_u8(), to: bm.dest.to_u8(), promo: None };
            let mut next_real = None;
            let mut next_model = None;
            if let (Some(rb), Some(mp)) = (real, model) {
                // the move, without a promotion choice, must be legal for the model and accepted
                // by the real checked move operation
                if !mp.is_legal(m) {
                    let needs_promo = mp.legal_moves().iter().any(|x| x.from == m.from && x.to == m.to);
                    self.c.violation(
                        if needs_promo { "book-move-needs-promotion" } else { "book-move-illegal" },
                        "model",
                        format!("after [{}] the book offers {} which is not legal in {}", line_str(path), m.uci(), mp.to_fen()),
                        obj().set("line", line_str(path)).set("move", m.uci()),
                    );
                    continue;
                }
                let rm = ChessMove { source: bm.source, dest: bm.dest, piece: None };
                match rb.move_new(rm) {
                    None => {
                        self.c.violation(
                            "book-move-refused",
                            "move_new",
                            format!("after [{}] move_new refuses the book move {} in {}", line_str(path), m.uci(), mp.to_fen()),
                            obj().set("line", line_str(path)).set("move", m.uci()),
                        );
                        continue;
                    }
                    Some(nb) => {
                        let nm = mp.apply(m);
                        let mut h = std::collections::hash_map::DefaultHasher::new();
                        std::hash::Hash::hash(&nm.identity(), &mut h);
                        self.positions.insert(std::hash::Hasher::finish(&h));
                        if nb.to_string() != nm.to_fen() {
                            self.c.count("board-text-differs-from-model (C05 matter, not judged here)");
                        }
                        next_real = Some(nb);
                        next_model = Some(nm);
                    }
                }
            }
            path.push(m);
            if self.c.want_sample() && self.nodes % self.sample_every == 0 {
                self.c.sample(obj().set("line", line_str(path)));
            }
            self.visit(bm.children, next_real.as_ref(), next_model.as_ref(), path);
            path.pop();
            if self.stop {
                return;
            }
        }
    }
}

pub fn run(c: &mut Collector, a: &Args) {
    if a.shard != 0 {
        c.eval();
        c.notes.push("C17 is walked completely by shard 0".into());
        c.distinct(1);
        c.distinct(2);
        return;
    }
    // EMPTY handle: must yield nothing
    let mut n = 0;
    for _ in EMPTY_BOOK_MOVES {
        n += 1;
        if n > 10 {
            break;
        }
    }
    c.eval();
    if n != 0 {
        c.violation("empty-book-not-empty", "iter", format!("EMPTY_BOOK_MOVES yields {n}+ moves"), obj());
    }
    let real = Board::standard();
    let model = Position::standard();
    let (nodes, leaves, depth, npos) = {
        let mut w = Walk { c, with_boards: !a.small, nodes: 0, leaves: 0, max_depth: 0, positions: HashSet::new(), stop: false, sample_every: 3001 };
        let mut path = Vec::new();
        if w.with_boards {
            w.visit(INITIAL_BOOOK_MOVES, Some(&real), Some(&model), &mut path);
        } else {
            // under Miri: iterator-only walk of the whole trie (reads of the table stay in range),
            // boards only along sampled lines
            w.visit(INITIAL_BOOOK_MOVES, None, None, &mut path);
        }
        (w.nodes, w.leaves, w.max_depth, w.positions.len())
    };
    c.add("book-nodes", nodes);
    c.add("book-leaves", leaves);
    c.add("max:book-depth", depth as u64);
    c.add("distinct-positions", npos as u64);
    c.add("distinct_direct_nodes", nodes);
    // distinct non-trivial = distinct positions reached along book lines
    for i in 0..(npos as u64).max(nodes.min(2)) {
        c.distinct(0xB00C_0000_0000 + i);
    }
    if a.small {
        // sampled lines with boards
        let mut handle = INITIAL_BOOOK_MOVES;
        let mut rb = real;
        let mut mp = model.clone();
        let mut k = 0usize;
        loop {
            let ch: Vec<_> = handle.into_iter().collect();
            if ch.is_empty() {
                break;
            }
            let bm = ch[k % ch.len()];
            k += 3;
            let m = Mv { from: bm.source.to_u8(), to: bm.dest.to_u8(), promo: None };
            c.eval();
            if !mp.is_legal(m) {
                c.violation("book-move-illegal", "model", format!("{} in {}", m.uci(), mp.to_fen()), obj());
                break;
            }
            match rb.move_new(ChessMove { source: bm.source, dest: bm.dest, piece: None }) {
                Some(nb) => rb = nb,
                None => {
                    c.violation("book-move-refused", "move_new", format!("{} in {}", m.uci(), mp.to_fen()), obj());
                    break;
                }
            }
            mp = mp.apply(m);
            handle = bm.children;
        }
    }
}
