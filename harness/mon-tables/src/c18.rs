//! C18: bitboards behave as sets of the 64 squares ([bool; 64] model).

use crate::*;
use chess_bitboard::{File, Rank};
use refmodel::json::obj;
use refmodel::rng::{mix3, Rng};

type Set = [bool; 64];

fn to_set(x: u64) -> Set {
    let mut s = [false; 64];
    for (i, b) in s.iter_mut().enumerate() {
        *b = x & (1u64 << i) != 0;
    }
    s
}
fn from_set(s: &Set) -> u64 {
    s.iter().enumerate().filter(|(_, b)| **b).map(|(i, _)| 1u64 << i).sum()
}
fn shift_set(s: &Set, df: i32, dr: i32) -> Set {
    let mut o = [false; 64];
    for i in 0..64 {
        if s[i] {
            let (f, r) = ((i % 8) as i32 + df, (i / 8) as i32 + dr);
            if (0..8).contains(&f) && (0..8).contains(&r) {
                o[(r * 8 + f) as usize] = true;
            }
        }
    }
    o
}

fn fail(c: &mut Collector, op: &str, x: u64, detail: String) {
    c.violation("set-semantics-violated", op, format!("{op} on {x:#018x}: {detail}"), obj().set("op", op).set("board", format!("{x:#018x}")));
}

fn unary(c: &mut Collector, x: u64, nth_full: bool) {
    c.eval();
    let s = to_set(x);
    let b = bb(x);
    let members: Vec<u8> = (0..64u8).filter(|i| s[*i as usize]).collect();
    macro_rules! ck {
        ($op:expr, $got:expr, $want:expr) => {{
            c.count("operation-checks");
            let (g, w) = ($got, $want);
            if g != w {
                fail(c, $op, x, format!("got {g:?}, set model gives {w:?}"));
            }
        }};
    }
    ck!("to_u64/from_u64", b.to_u64(), x);
    ck!("count", b.count() as usize, members.len());
    ck!("any", b.any(), !members.is_empty());
    ck!("none", b.none(), members.is_empty());
    ck!("all", b.all(), members.len() == 64);
    ck!("some", b.some(), members.len() != 64);
    ck!("not", (!b).to_u64(), from_set(&s.map(|v| !v)));
    ck!("not-method", b.not().to_u64(), !x);
    ck!("shift_up", b.shift_up().to_u64(), from_set(&shift_set(&s, 0, 1)));
    ck!("shift_down", b.shift_down().to_u64(), from_set(&shift_set(&s, 0, -1)));
    ck!("shift_left", b.shift_left().to_u64(), from_set(&shift_set(&s, -1, 0)));
    ck!("shift_right", b.shift_right().to_u64(), from_set(&shift_set(&s, 1, 0)));
    let mut fl = [false; 64];
    for i in 0..64 {
        fl[(7 - i / 8) * 8 + i % 8] = s[i];
    }
    ck!("flip_ranks", b.flip_ranks().to_u64(), from_set(&fl));
    for i in 0..64u8 {
        let p = pos(i);
        if b.contains(p) != s[i as usize] {
            fail(c, "contains", x, format!("{p:?}"));
        }
    }
    c.add("operation-checks", 64);
    // single-square insert / remove on a few squares (all squares for sparse boards)
    let probe: Vec<u8> = if members.len() <= 2 { (0..64).collect() } else { vec![0, 7, 27, 36, 56, 63, members[0], *members.last().unwrap()] };
    for i in probe {
        let p = pos(i);
        let mut w = s;
        w[i as usize] = true;
        let mut wo = s;
        wo[i as usize] = false;
        ck!("with", b.with(p).to_u64(), from_set(&w));
        ck!("cleared", b.cleared(p).to_u64(), from_set(&wo));
        let mut m = b;
        m.set(p);
        ck!("set", m.to_u64(), from_set(&w));
        let mut m = b;
        m.clear(p);
        ck!("clear", m.to_u64(), from_set(&wo));
        ck!("sub-pos", (b - p).to_u64(), from_set(&wo));
        let mut m = b;
        m -= p;
        ck!("sub-assign-pos", m.to_u64(), from_set(&wo));
    }
    // pop
    let mut m = b;
    let popped = m.pop().map(|p| p.to_u8());
    ck!("pop-value", popped, members.first().copied());
    let mut rest = s;
    if let Some(f) = members.first() {
        rest[*f as usize] = false;
    }
    ck!("pop-remainder", m.to_u64(), from_set(&rest));
    // iteration: ascending order, exact size hint at every step
    let mut it = b.iter();
    let mut seen = Vec::new();
    loop {
        let remaining = members.len() - seen.len();
        if it.size_hint() != (remaining, Some(remaining)) {
            fail(c, "iter.size_hint", x, format!("after {} items: {:?}, expected {remaining}", seen.len(), it.size_hint()));
            break;
        }
        match it.next() {
            Some(p) => seen.push(p.to_u8()),
            None => break,
        }
        if seen.len() > 64 {
            break;
        }
    }
    ck!("iter-order", seen.clone(), members.clone());
    let via_into: Vec<u8> = b.into_iter().map(|p| p.to_u8()).collect();
    ck!("into_iter", via_into, members.clone());
    // the other Iterator methods must agree with repeated next(), from the start and after a prefix
    // (they are default methods today; a specialised count/last/min/max/fold must keep agreeing)
    for skip in [0usize, 1, members.len() / 2, members.len()] {
        let skip = skip.min(members.len());
        let mk = || {
            let mut it = b.iter();
            for _ in 0..skip {
                it.next();
            }
            it
        };
        let rest = &members[skip..];
        ck!("iter-count", mk().count(), rest.len());
        ck!("iter-last", mk().last().map(|p| p.to_u8()), rest.last().copied());
        ck!("iter-min", mk().min().map(|p| p.to_u8()), rest.first().copied());
        ck!("iter-max", mk().max().map(|p| p.to_u8()), rest.last().copied());
        ck!("iter-fold", mk().fold(0u64, |a, p| a | (1u64 << p.to_u8())), rest.iter().fold(0u64, |a, i| a | (1u64 << i)));
        ck!("iter-size_hint", mk().size_hint(), (rest.len(), Some(rest.len())));
        ck!("iter-collect-after-prefix", mk().map(|p| p.to_u8()).collect::<Vec<u8>>(), rest.to_vec());
        let mut fused = mk();
        for _ in 0..rest.len() {
            fused.next();
        }
        ck!("iter-stays-exhausted", (fused.next().is_none(), fused.next().is_none(), fused.size_hint()), (true, true, (0, Some(0))));
    }
    // collection from iterators
    let col: chess_bitboard::BitBoard = members.iter().map(|i| pos(*i)).collect();
    ck!("from_iter-squares", col.to_u64(), x);
    let col2: chess_bitboard::BitBoard = members.iter().map(|i| chess_bitboard::BitBoard::from_pos(pos(*i))).collect();
    ck!("from_iter-boards", col2.to_u64(), x);
    // collection from long iterators with repeated squares (more than 64 items)
    if !members.is_empty() {
        let long: Vec<u8> = members.iter().cycle().take(members.len() * 3 + 70).copied().collect();
        let mut rev = long.clone();
        rev.reverse();
        let c1: chess_bitboard::BitBoard = long.iter().map(|i| pos(*i)).collect();
        let c2: chess_bitboard::BitBoard = rev.iter().map(|i| chess_bitboard::BitBoard::from_pos(pos(*i))).collect();
        // a new square first appearing after item 64
        let extra = (0..64u8).find(|i| !s[*i as usize]);
        let c3: chess_bitboard::BitBoard = std::iter::repeat(pos(members[0])).take(70).chain(extra.map(pos)).collect();
        ck!("from_iter-squares-long", c1.to_u64(), x);
        ck!("from_iter-boards-long", c2.to_u64(), x);
        ck!("from_iter-squares-late-newcomer", c3.to_u64(), (1u64 << members[0]) | extra.map(|e| 1u64 << e).unwrap_or(0));
    }
    // nth: value equals skipping n elements; after a Some the remainder is the model remainder
    let ns: Vec<usize> = if nth_full {
        // small indices, then every power-of-two boundary plus a small offset: an index truncated to
        // 8/16/32 bits (or shifted out) would alias one of the first elements
        let mut v: Vec<usize> = (0..=70).chain([100, 127, 128, 255, 256, 1000, usize::MAX / 2, usize::MAX]).collect();
        for bit in [6u32, 7, 8, 15, 16, 24, 31, 32, 33, 40, 48, 56, 62, 63] {
            for k in [0usize, 1, members.len().saturating_sub(1), members.len()] {
                v.push((1usize << bit).wrapping_add(k));
                v.push((1usize << bit).wrapping_sub(1).wrapping_add(k));
            }
        }
        v
    } else {
        vec![0, 1, members.len().saturating_sub(1), members.len(), members.len() + 1, 63, 64, 65]
    };
    for n in ns {
        c.count("nth-checks");
        let mut it = b.iter();
        let got = it.nth(n).map(|p| p.to_u8());
        let want = members.get(n).copied();
        if got != want {
            fail(c, "iter.nth", x, format!("nth({n}) = {got:?}, skipping {n} elements gives {want:?}"));
            break;
        }
        if want.is_some() {
            let rem: Vec<u8> = it.map(|p| p.to_u8()).collect();
            let wrem: Vec<u8> = members[n + 1..].to_vec();
            if rem != wrem {
                fail(c, "iter.nth-remainder", x, format!("after nth({n}) the iterator yields {rem:?}, expected {wrem:?}"));
                break;
            }
        } else {
            // nth consumes the elements it skips: after a None nothing may be left (as for the
            // iterator of a slice of the members)
            let hint = it.size_hint();
            let rem: Vec<u8> = it.map(|p| p.to_u8()).collect();
            if !rem.is_empty() || hint != (0, Some(0)) {
                fail(c, "iter.nth-remainder", x, format!("nth({n}) returned None but the iterator then reports size_hint {hint:?} and yields {rem:?}"));
                break;
            }
        }
    }
    // two nth calls in a row
    if members.len() >= 3 {
        let mut it = b.iter();
        let a1 = it.nth(1).map(|p| p.to_u8());
        let a2 = it.nth(0).map(|p| p.to_u8());
        ck!("iter.nth-twice", (a1, a2), (members.get(1).copied(), members.get(2).copied()));
    }
    ck!("from-option-none", chess_bitboard::BitBoard::from(None::<chess_bitboard::Pos>).to_u64(), 0u64);
    if let Some(f) = members.first() {
        ck!("from-option-some", chess_bitboard::BitBoard::from(Some(pos(*f))).to_u64(), 1u64 << f);
    }
}

fn binary(c: &mut Collector, x: u64, y: u64) {
    c.eval();
    let (a, b) = (bb(x), bb(y));
    let (sa, sb) = (to_set(x), to_set(y));
    let mut u = [false; 64];
    let mut i_ = [false; 64];
    let mut xo = [false; 64];
    let mut d = [false; 64];
    for k in 0..64 {
        u[k] = sa[k] || sb[k];
        i_[k] = sa[k] && sb[k];
        xo[k] = sa[k] != sb[k];
        d[k] = sa[k] && !sb[k];
    }
    let checks: [(&str, u64, u64); 12] = [
        ("bitor", (a | b).to_u64(), from_set(&u)),
        ("bitand", (a & b).to_u64(), from_set(&i_)),
        ("bitxor", (a ^ b).to_u64(), from_set(&xo)),
        ("sub", (a - b).to_u64(), from_set(&d)),
        ("or", a.or(b).to_u64(), from_set(&u)),
        ("and", a.and(b).to_u64(), from_set(&i_)),
        ("xor", a.xor(b).to_u64(), from_set(&xo)),
        ("diff", a.diff(b).to_u64(), from_set(&d)),
        ("bitor_assign", { let mut m = a; m |= b; m.to_u64() }, from_set(&u)),
        ("bitand_assign", { let mut m = a; m &= b; m.to_u64() }, from_set(&i_)),
        ("bitxor_assign", { let mut m = a; m ^= b; m.to_u64() }, from_set(&xo)),
        ("sub_assign", { let mut m = a; m -= b; m.to_u64() }, from_set(&d)),
    ];
    for (op, g, w) in checks {
        c.count("operation-checks");
        if g != w {
            c.violation("set-semantics-violated", op, format!("{op}({x:#018x}, {y:#018x}) = {g:#018x}, set model gives {w:#018x}"), obj().set("op", op).set("a", format!("{x:#018x}")).set("b", format!("{y:#018x}")));
        }
    }
    c.count("eq-checks");
    if (a == b) != (x == y) {
        c.violation("set-semantics-violated", "eq", format!("{x:#x} == {y:#x}"), obj());
    }
}


/// An honest iterator wrapper that reports one of the size_hint shapes a caller can legally see:
/// 0 = the inner (exact) hint, 1 = (0, None), 2 = (0, Some(upper)), 3 = (lower, None).
struct Hinted<I> {
    inner: I,
    mode: u8,
}
impl<I: Iterator> Iterator for Hinted<I> {
    type Item = I::Item;
    fn next(&mut self) -> Option<I::Item> {
        self.inner.next()
    }
    fn size_hint(&self) -> (usize, Option<usize>) {
        let (lo, hi) = self.inner.size_hint();
        match self.mode {
            0 => (lo, hi),
            1 => (0, None),
            2 => (0, hi),
            _ => (lo, None),
        }
    }
}

fn collect_squares(c: &mut Collector, items: &[u8], what: &str) {
    c.eval();
    c.count("collections-of-squares");
    let want: u64 = items.iter().fold(0u64, |acc, i| acc | (1u64 << i));
    let sq: Vec<chess_bitboard::Pos> = items.iter().map(|i| pos(*i)).collect();
    let mut got: Vec<(String, u64)> = Vec::new();
    for mode in 0..4u8 {
        let b: chess_bitboard::BitBoard = Hinted { inner: sq.clone().into_iter(), mode }.collect();
        got.push((format!("Vec::into_iter, hint shape {mode}"), b.to_u64()));
    }
    let b: chess_bitboard::BitBoard = sq.iter().copied().collect();
    got.push(("slice::iter().copied()".into(), b.to_u64()));
    let b: chess_bitboard::BitBoard = sq.iter().rev().copied().collect();
    got.push(("reversed slice".into(), b.to_u64()));
    if let Ok(arr) = <[chess_bitboard::Pos; 64]>::try_from(sq.clone()) {
        c.count("collections-from-64-element-arrays");
        let b: chess_bitboard::BitBoard = arr.into_iter().collect();
        got.push(("[Pos; 64]".into(), b.to_u64()));
    }
    for (how, g) in got {
        if g != want {
            c.violation(
                "set-semantics-violated",
                "from_iter-squares",
                format!("collecting {} squares ({what}; {how}) gave {g:#018x}, the union of the items is {want:#018x}; items {:?}", items.len(), &items[..items.len().min(80)]),
                obj().set("op", "from_iter-squares").set("items", format!("{items:?}")),
            );
            return;
        }
    }
}

fn collect_boards(c: &mut Collector, items: &[u64], what: &str) {
    c.eval();
    c.count("collections-of-boards");
    let want: u64 = items.iter().fold(0u64, |acc, i| acc | i);
    let bs: Vec<chess_bitboard::BitBoard> = items.iter().map(|x| bb(*x)).collect();
    let mut got: Vec<(String, u64)> = Vec::new();
    for mode in 0..4u8 {
        let b: chess_bitboard::BitBoard = Hinted { inner: bs.clone().into_iter(), mode }.collect();
        got.push((format!("Vec::into_iter, hint shape {mode}"), b.to_u64()));
    }
    let b: chess_bitboard::BitBoard = bs.iter().rev().copied().collect();
    got.push(("reversed slice".into(), b.to_u64()));
    for (how, g) in got {
        if g != want {
            c.violation(
                "set-semantics-violated",
                "from_iter-boards",
                format!("collecting {} boards ({what}; {how}) gave {g:#018x}, the union of the items is {want:#018x}; items {:x?}", items.len(), &items[..items.len().min(16)]),
                obj().set("op", "from_iter-boards").set("items", format!("{items:x?}")),
            );
            return;
        }
    }
}

/// Collections as histories: the result must be the union whatever the length, the order, the
/// repetitions, the subset relations between successive items and the size_hint shape.
fn collections(c: &mut Collector, rng: &mut Rng, a: &Args) {
    c.journal("collections");
    // squares: every length 0..=130 and the width boundaries, five content shapes each
    let mut lens: Vec<usize> = if a.small { vec![0, 1, 2, 3, 7, 8, 63, 64, 65, 127, 128, 129] } else { (0..=130).collect() };
    lens.extend([255, 256, 257, 511, 512, 513, 1000, 65535, 65536, 65537]);
    for (k, &n) in lens.iter().enumerate() {
        if k as u64 % a.nshards != a.shard || (a.small && n > 300) {
            continue;
        }
        let p = rng.below(64) as u8;
        let q = (p + 1 + rng.below(63) as u8) % 64;
        collect_squares(c, &vec![p; n], "one square repeated");
        let mut v = vec![p; n];
        if n > 0 {
            v[n - 1] = q;
        }
        collect_squares(c, &v, "one square repeated, a second one last");
        if n > 0 {
            v[n - 1] = p;
            v[0] = q;
        }
        collect_squares(c, &v, "a second square first");
        let v: Vec<u8> = (0..n).map(|i| (i % 64) as u8).collect();
        collect_squares(c, &v, "squares in index order, cycling");
        let v: Vec<u8> = (0..n).map(|_| rng.below(64) as u8).collect();
        collect_squares(c, &v, "random squares");
        let few: Vec<u8> = (0..1 + rng.below(5)).map(|_| rng.below(64) as u8).collect();
        let v: Vec<u8> = (0..n).map(|_| *rng.pick(&few)).collect();
        collect_squares(c, &v, "few distinct squares");
    }
    // boards: structured histories, where item k relates to the union so far
    let rounds = if a.small { 40 } else if a.tier == "thorough" { 400_000 } else { 60_000 } / a.nshards.max(1) as usize + 1;
    for r in 0..rounds {
        let n = match r % 4 {
            0 => rng.range(0, 4),
            1 => rng.range(3, 8),
            2 => rng.range(3, 20),
            _ => rng.range(60, 70),
        } as usize;
        let mut items: Vec<u64> = Vec::with_capacity(n);
        let mut union = 0u64;
        for k in 0..n {
            let sparse = rng.next_u64() & rng.next_u64() & rng.next_u64();
            let x = match rng.below(10) {
                0 | 1 => union & rng.next_u64(),                // a subset of what is already there
                2 => union,                                     // exactly the union so far
                3 if k > 0 => items[rng.below(k as u64) as usize], // an earlier item again
                4 => 0,
                5 if r % 16 == 0 => !0u64,
                6 => 1u64 << rng.below(64),
                7 => union | (1u64 << rng.below(64)),           // a superset
                _ => sparse,
            };
            union |= x;
            items.push(x);
        }
        collect_boards(c, &items, "structured history");
    }
    // the fixed shapes: [a, subset, newcomer], [a, a, b], [a, empty, b], [full, x], [x, full, y]
    if a.shard == 0 {
        for i in 0..64u8 {
            for j in 0..64u8 {
                if i == j {
                    continue;
                }
                let fa = 0x0101010101010101u64 << (i % 8);
                collect_boards(c, &[fa, fa & (1u64 << (i % 8)), 1u64 << j], "file, its first square, a newcomer");
                collect_boards(c, &[1u64 << i, 1u64 << i, 1u64 << j], "a, a, b");
                collect_boards(c, &[1u64 << i, 0, 1u64 << j], "a, empty, b");
                collect_boards(c, &[1u64 << i, 1u64 << j, 1u64 << i, 1u64 << ((j + 1) % 64)], "a, b, a, c");
            }
        }
    }
}

pub fn special_boards() -> Vec<u64> {
    let mut v = vec![0u64, !0u64];
    for i in 0..64 {
        v.push(1u64 << i);
    }
    for f in 0..8 {
        v.push(0x0101010101010101u64 << f);
        v.push(0xffu64 << (8 * f));
    }
    v.extend([0x8040201008040201u64, 0x0102040810204080, 0xff818181818181ff, 0x55aa55aa55aa55aa, 0xaa55aa55aa55aa55, 0x00000000ffffffff, 0xffffffff00000000, 0x7fffffffffffffff, 0xfffffffffffffffe, 0x8000000000000001]);
    v
}

pub fn run(c: &mut Collector, a: &Args) {
    let mut rng = Rng::new(mix3(a.seed, a.shard, 0xC18));
    // constructors
    if a.shard == 0 {
        for i in 0..64u8 {
            c.eval();
            if chess_bitboard::BitBoard::from_pos(pos(i)).to_u64() != 1u64 << i || chess_bitboard::BitBoard::from(pos(i)).to_u64() != 1u64 << i {
                fail(c, "from_pos", 1u64 << i, format!("square {i}"));
            }
        }
        for i in 0..8u8 {
            c.eval();
            let f = File::from_u8(i).unwrap();
            let r = Rank::from_u8(i).unwrap();
            let wf: u64 = (0..8).map(|k| 1u64 << (k * 8 + i as u64)).sum();
            let wr: u64 = (0..8).map(|k| 1u64 << (i as u64 * 8 + k)).sum();
            if chess_bitboard::BitBoard::from_file(f).to_u64() != wf || chess_bitboard::BitBoard::from(f).to_u64() != wf {
                fail(c, "from_file", wf, format!("file {i}"));
            }
            if chess_bitboard::BitBoard::from_rank(r).to_u64() != wr || chess_bitboard::BitBoard::from(r).to_u64() != wr {
                fail(c, "from_rank", wr, format!("rank {i}"));
            }
        }
        if chess_bitboard::BitBoard::empty().to_u64() != 0 {
            fail(c, "empty", 0, "not empty".into());
        }
    }
    let specials = special_boards();
    let mut idx = 0u64;
    // singles, files, ranks, patterns
    for &x in &specials {
        idx += 1;
        if idx % a.nshards == a.shard {
            c.journal(&format!("unary {x:#x}"));
            c.distinct(x ^ 0x18);
            unary(c, x, true);
        }
    }
    c.add("special-boards", specials.len() as u64);
    // all 2016 two-square boards
    let step = if a.small { 37 } else { 1 };
    let mut k = 0u64;
    for i in 0..64 {
        for j in (i + 1)..64 {
            k += 1;
            if k % a.nshards == a.shard && k % step == 0 {
                let x = (1u64 << i) | (1u64 << j);
                c.distinct(x ^ 0x18);
                c.count("two-square-boards");
                unary(c, x, i % 8 == 0);
            }
        }
    }
    // special x special pairs
    let mut k = 0u64;
    for &x in &specials {
        for &y in &specials {
            k += 1;
            if k % a.nshards == a.shard && (!a.small || k % 29 == 0) {
                c.count("special-pairs");
                binary(c, x, y);
            }
        }
    }
    // seeded boards of every density
    let n = if a.small { 60 } else if a.tier == "thorough" { 400_000 } else { 40_000 };
    for i in 0..n {
        let x = match i % 7 {
            0 => rng.next_u64(),
            1 => rng.next_u64() & rng.next_u64(),
            2 => rng.next_u64() & rng.next_u64() & rng.next_u64(),
            3 => rng.next_u64() | rng.next_u64(),
            4 => rng.next_u64() | rng.next_u64() | rng.next_u64(),
            5 => (1u64 << rng.below(64)) | (1u64 << rng.below(64)) | (1u64 << rng.below(64)),
            _ => !((1u64 << rng.below(64)) | (1u64 << rng.below(64))),
        };
        if i % 64 == 0 {
            c.journal(&format!("seeded {x:#x}"));
        }
        c.distinct(x ^ 0x18);
        c.count("seeded-boards");
        unary(c, x, i % 16 == 0);
        let y = rng.next_u64() & if i % 2 == 0 { rng.next_u64() } else { !0 };
        binary(c, x, y);
    }
    collections(c, &mut rng, a);
    c.sample(obj().set("board", "0x00000000000000ff").set("iter", format!("{:?}", bb(0xff).iter().collect::<Vec<_>>())).set("nth(3)", format!("{:?}", bb(0xff).iter().nth(3))));
}
