//! C19: square / file / rank / piece / move text forms round-trip; parsers accept exactly the
//! intended spellings; the enumerating iterators behave like slice iterators from both ends.

use crate::*;
use chess_bitboard::{Color, File, Piece, PromotionPiece, Rank, Side};
use chess_movegen::ChessMove;
use refmodel::json::obj;
use refmodel::rng::{fnv, mix3, Rng};
use std::fmt::Debug;

fn want_file(b: u8) -> Option<u8> {
    match b {
        b'a'..=b'h' => Some(b - b'a'),
        b'A'..=b'H' => Some(b - b'A'),
        _ => None,
    }
}
fn want_rank(b: u8) -> Option<u8> {
    match b {
        b'1'..=b'8' => Some(b - b'1'),
        _ => None,
    }
}
fn want_piece(b: u8) -> Option<u8> {
    Some(match b.to_ascii_lowercase() {
        b'p' => 0,
        b'n' => 1,
        b'b' => 2,
        b'r' => 3,
        b'q' => 4,
        b'k' => 5,
        _ => return None,
    })
    .filter(|_| b.is_ascii_alphabetic())
}
fn want_promo(b: u8) -> Option<u8> {
    want_piece(b).filter(|k| (1..=4).contains(k))
}
fn want_pos(s: &[u8]) -> Option<u8> {
    if s.len() != 2 {
        return None;
    }
    Some(want_rank(s[1])? * 8 + want_file(s[0])?)
}
fn want_move(s: &[u8]) -> Option<(u8, u8)> {
    match s.len() {
        4 => Some((want_pos(&s[0..2])?, want_pos(&s[2..4])?)),
        5 if s[2] == b'-' => Some((want_pos(&s[0..2])?, want_pos(&s[3..5])?)),
        _ => None,
    }
}

fn brepr(s: &[u8]) -> String {
    s.iter().map(|b| if (0x21..0x7f).contains(b) { (*b as char).to_string() } else { format!("\\x{b:02x}") }).collect()
}

fn bad(c: &mut Collector, what: &str, input: &[u8], detail: String) {
    c.violation("parser-language-mismatch", what, format!("{what}(\"{}\"): {detail}", brepr(input)), obj().set("parser", what).set("input_hex", input.iter().map(|b| format!("{b:02x}")).collect::<String>()));
}

fn check_bytes(c: &mut Collector, s: &[u8]) {
    c.eval();
    // single-value parsers through from_ascii_bytes (covers non-UTF-8 input)
    let f = File::from_ascii_bytes(s).map(|x| x as u8);
    let wf = if s.len() == 1 { want_file(s[0]) } else { None };
    if f != wf {
        bad(c, "File::from_ascii_bytes", s, format!("{f:?}, intended {wf:?}"));
    }
    let r = Rank::from_ascii_bytes(s).map(|x| x as u8);
    let wr = if s.len() == 1 { want_rank(s[0]) } else { None };
    if r != wr {
        bad(c, "Rank::from_ascii_bytes", s, format!("{r:?}, intended {wr:?}"));
    }
    let p = Piece::from_ascii_bytes(s).map(|x| x as u8);
    let wp = if s.len() == 1 { want_piece(s[0]) } else { None };
    if p != wp {
        bad(c, "Piece::from_ascii_bytes", s, format!("{p:?}, intended {wp:?}"));
    }
    let pp = PromotionPiece::from_ascii_bytes(s).map(|x| x as u8);
    let wpp = if s.len() == 1 { want_promo(s[0]) } else { None };
    if pp != wpp {
        bad(c, "PromotionPiece::from_ascii_bytes", s, format!("{pp:?}, intended {wpp:?}"));
    }
    let q = chess_bitboard::Pos::from_ascii_bytes(s).map(|x| x.to_u8());
    let wq = want_pos(s);
    if q != wq {
        bad(c, "Pos::from_ascii_bytes", s, format!("{q:?}, intended {wq:?}"));
    }
    let m = ChessMove::from_ascii_bytes(s).map(|m| (m.source.to_u8(), m.dest.to_u8(), m.piece));
    let wm = want_move(s).map(|(a, b)| (a, b, None));
    if m != wm {
        bad(c, "ChessMove::from_ascii_bytes", s, format!("{m:?}, intended {wm:?}"));
    }
    if s.len() == 1 {
        let b = s[0];
        if File::from_ascii_byte(b).map(|x| x as u8) != want_file(b) {
            bad(c, "File::from_ascii_byte", s, "byte form".into());
        }
        if Rank::from_ascii_byte(b).map(|x| x as u8) != want_rank(b) {
            bad(c, "Rank::from_ascii_byte", s, "byte form".into());
        }
        if Piece::from_ascii_byte(b).map(|x| x as u8) != want_piece(b) {
            bad(c, "Piece::from_ascii_byte", s, "byte form".into());
        }
        if PromotionPiece::from_ascii_byte(b).map(|x| x as u8) != want_promo(b) {
            bad(c, "PromotionPiece::from_ascii_byte", s, "byte form".into());
        }
    }
    // FromStr must agree on valid UTF-8
    if let Ok(t) = std::str::from_utf8(s) {
        c.count("fromstr-checks");
        if t.parse::<File>().ok().map(|x| x as u8) != wf {
            bad(c, "File::from_str", s, "differs from the intended set".into());
        }
        if t.parse::<Rank>().ok().map(|x| x as u8) != wr {
            bad(c, "Rank::from_str", s, "differs from the intended set".into());
        }
        if t.parse::<Piece>().ok().map(|x| x as u8) != wp {
            bad(c, "Piece::from_str", s, "differs from the intended set".into());
        }
        if t.parse::<PromotionPiece>().ok().map(|x| x as u8) != wpp {
            bad(c, "PromotionPiece::from_str", s, "differs from the intended set".into());
        }
        if t.parse::<chess_bitboard::Pos>().ok().map(|x| x.to_u8()) != wq {
            bad(c, "Pos::from_str", s, "differs from the intended set".into());
        }
        if t.parse::<ChessMove>().ok().map(|m| (m.source.to_u8(), m.dest.to_u8(), m.piece)) != wm {
            bad(c, "ChessMove::from_str", s, "differs from the intended set".into());
        }
    }
}

fn geometry(c: &mut Collector) {
    for s in 0..64u8 {
        c.eval();
        c.distinct(0x190000 + s as u64);
        let p = pos(s);
        let (f, r) = (s % 8, s / 8);
        let mut errs: Vec<String> = Vec::new();
        if p.to_u8() != s || p as u8 != s {
            errs.push("to_u8".into());
        }
        if chess_bitboard::Pos::const_from_u8(s) != p {
            errs.push("const_from_u8".into());
        }
        if p.file() as u8 != f || p.rank() as u8 != r {
            errs.push(format!("file/rank = {:?}/{:?}", p.file(), p.rank()));
        }
        if chess_bitboard::Pos::new(File::from_u8(f).unwrap(), Rank::from_u8(r).unwrap()) != p {
            errs.push("new(file, rank)".into());
        }
        let nb = |df: i32, dr: i32| -> Option<u8> {
            let (x, y) = (f as i32 + df, r as i32 + dr);
            if (0..8).contains(&x) && (0..8).contains(&y) { Some((y * 8 + x) as u8) } else { None }
        };
        if p.shift_up().map(|x| x.to_u8()) != nb(0, 1) {
            errs.push("shift_up".into());
        }
        if p.shift_down().map(|x| x.to_u8()) != nb(0, -1) {
            errs.push("shift_down".into());
        }
        if p.shift_left().map(|x| x.to_u8()) != nb(-1, 0) {
            errs.push("shift_left".into());
        }
        if p.shift_right().map(|x| x.to_u8()) != nb(1, 0) {
            errs.push("shift_right".into());
        }
        if p.flip_rank().to_u8() != (7 - r) * 8 + f {
            errs.push("flip_rank".into());
        }
        // text round trip, both cases
        let text = p.to_string();
        if text.as_bytes() != [b'a' + f, b'1' + r] {
            errs.push(format!("display = {text:?}"));
        }
        if text.parse::<chess_bitboard::Pos>() != Ok(p) || text.to_uppercase().parse::<chess_bitboard::Pos>() != Ok(p) {
            errs.push("parse(display)".into());
        }
        if !errs.is_empty() {
            c.violation("square-functions-inconsistent", "pos", format!("{p:?}: {errs:?}"), obj().set("square", s as u64));
        }
    }
    if chess_bitboard::Pos::from_u8(64).is_some() || chess_bitboard::Pos::from_u8(255).is_some() {
        c.violation("square-functions-inconsistent", "from_u8", "from_u8 accepts >= 64".into(), obj());
    }
    for i in 0..8u8 {
        c.eval();
        let f = File::from_u8(i).unwrap();
        let r = Rank::from_u8(i).unwrap();
        let mut errs: Vec<String> = Vec::new();
        if f.to_u8() != i || r.to_u8() != i || File::const_from_u8(i) != f || Rank::const_from_u8(i) != r {
            errs.push("index conversion".into());
        }
        if f.shift_left().map(|x| x as u8) != i.checked_sub(1) || f.shift_right().map(|x| x as u8) != Some(i + 1).filter(|x| *x < 8) {
            errs.push("file shifts".into());
        }
        if r.shift_down().map(|x| x as u8) != i.checked_sub(1) || r.shift_up().map(|x| x as u8) != Some(i + 1).filter(|x| *x < 8) {
            errs.push("rank shifts".into());
        }
        if r.flip() as u8 != 7 - i {
            errs.push("rank flip".into());
        }
        if f.lower_letter() != (b'a' + i) as char || f.upper_letter() != (b'A' + i) as char {
            errs.push("letters".into());
        }
        if (f.side() == Side::King) != (i >= 4) {
            errs.push("side".into());
        }
        for j in 0..8u8 {
            if f.dist_to(File::from_u8(j).unwrap()) != i.abs_diff(j) || r.dist_to(Rank::from_u8(j).unwrap()) != i.abs_diff(j) {
                errs.push(format!("dist_to {j}"));
            }
        }
        if f.to_string().parse::<File>() != Ok(f) || r.to_string().parse::<Rank>() != Ok(r) || f.upper_letter().to_string().parse::<File>() != Ok(f) {
            errs.push("text round trip".into());
        }
        if f.to_string().as_bytes() != [b'a' + i] || r.to_string().as_bytes() != [b'1' + i] {
            errs.push("display".into());
        }
        // File::iter / Rank::iter yield the squares of the file / rank in ascending order
        let fi: Vec<u8> = f.iter().map(|p| p.to_u8()).collect();
        let ri: Vec<u8> = r.iter().map(|p| p.to_u8()).collect();
        if fi != (0..8).map(|k| k * 8 + i).collect::<Vec<u8>>() || ri != (0..8).map(|k| i * 8 + k).collect::<Vec<u8>>() {
            errs.push("File::iter / Rank::iter".into());
        }
        if f.into_iter().count() != 8 || r.into_iter().count() != 8 {
            errs.push("into_iter".into());
        }
        if !errs.is_empty() {
            c.violation("square-functions-inconsistent", "file-rank", format!("index {i}: {errs:?}"), obj().set("index", i as u64));
        }
    }
    if File::from_u8(8).is_some() || Rank::from_u8(8).is_some() || Piece::from_u8(6).is_some() || Color::from_u8(2).is_some() || Side::from_u8(2).is_some() {
        c.violation("square-functions-inconsistent", "from_u8", "an enum from_u8 accepts an out-of-range index".into(), obj());
    }
    for pp in [PromotionPiece::Knight, PromotionPiece::Bishop, PromotionPiece::Rook, PromotionPiece::Queen] {
        c.eval();
        if pp.to_string().parse::<PromotionPiece>() != Ok(pp) || pp.to_string().to_lowercase().parse::<PromotionPiece>() != Ok(pp) || Piece::from(pp) as u8 != pp as u8 {
            c.violation("square-functions-inconsistent", "promotion-piece", format!("{pp:?}"), obj());
        }
    }
    // every non-promotion move: display -> parse, both spellings, either case
    for a in 0..64u8 {
        for b in 0..64u8 {
            c.eval();
            c.count("move-text-round-trips");
            let m = ChessMove { source: pos(a), dest: pos(b), piece: None };
            let t = m.to_string();
            let compact = t.replace('-', "");
            let ok = t.parse::<ChessMove>() == Ok(m)
                && compact.parse::<ChessMove>() == Ok(m)
                && t.to_uppercase().parse::<ChessMove>() == Ok(m)
                && compact.to_uppercase().parse::<ChessMove>() == Ok(m)
                && t.len() == 5
                && compact == format!("{}{}", pos(a), pos(b));
            if !ok {
                c.violation("move-text-round-trip", "move", format!("{m:?} displays as {t:?}"), obj().set("from", a as u64).set("to", b as u64));
            }
        }
    }
}

#[derive(Clone, Copy, Debug)]
enum IOp {
    Next,
    NextBack,
    Nth(usize),
    NthBack(usize),
}

const IOPS: [IOp; 9] = [IOp::Next, IOp::NextBack, IOp::Nth(0), IOp::Nth(1), IOp::Nth(2), IOp::Nth(9), IOp::NthBack(0), IOp::NthBack(1), IOp::NthBack(3)];

/// skip counts at every width boundary: a count truncated to 8/16/32 bits aliases a small one
fn huge_counts() -> Vec<usize> {
    let mut v = vec![usize::MAX, usize::MAX - 1, usize::MAX / 2];
    for bit in [8u32, 16, 31, 32, 33, 48, 63] {
        for k in 0..4usize {
            v.push((1usize << bit) + k);
        }
        v.push((1usize << bit) - 1);
    }
    v
}

fn de_iter_run<I, T>(c: &mut Collector, name: &str, mk: &dyn Fn() -> I, all: &[T], ops: &[IOp]) -> bool
where
    I: DoubleEndedIterator<Item = T> + Clone,
    T: PartialEq + Debug + Copy,
{
    c.eval();
    let mut real = mk();
    let mut model = all.iter();
    for (i, op) in ops.iter().enumerate() {
        if real.size_hint() != model.size_hint() {
            c.violation(
                "iterator-differs-from-slice-iterator",
                name,
                format!("{name}: after {:?} size_hint = {:?}, slice iterator says {:?}", &ops[..i], real.size_hint(), model.size_hint()),
                obj().set("iterator", name).set("ops", format!("{:?}", &ops[..i])),
            );
            return false;
        }
        // clone must be independent and equal in behaviour
        if i == 2 {
            let mut cl = real.clone();
            let mut mc = model.clone();
            if cl.next() != mc.next().copied() || cl.next_back() != mc.next_back().copied() {
                c.violation("iterator-differs-from-slice-iterator", name, format!("{name}: clone after {:?} behaves differently", &ops[..i]), obj().set("iterator", name));
                return false;
            }
        }
        let (g, w) = match op {
            IOp::Next => (real.next(), model.next().copied()),
            IOp::NextBack => (real.next_back(), model.next_back().copied()),
            IOp::Nth(n) => (real.nth(*n), model.nth(*n).copied()),
            IOp::NthBack(n) => (real.nth_back(*n), model.nth_back(*n).copied()),
        };
        if g != w {
            c.violation(
                "iterator-differs-from-slice-iterator",
                name,
                format!("{name}: ops {:?}: last returned {g:?}, slice iterator returns {w:?}", &ops[..=i]),
                obj().set("iterator", name).set("ops", format!("{:?}", &ops[..=i])),
            );
            return false;
        }
    }
    // the remaining Iterator methods must agree with the slice iterator on what is left
    {
        let n = model.clone().count();
        let got_count = real.clone().count();
        let got_last = real.clone().last();
        let want_last = model.clone().last().copied();
        let got_fold: Vec<T> = real.clone().fold(Vec::new(), |mut v, x| {
            v.push(x);
            v
        });
        let want_fold: Vec<T> = model.clone().copied().collect();
        let got_rfold: Vec<T> = real.clone().rfold(Vec::new(), |mut v, x| {
            v.push(x);
            v
        });
        let want_rfold: Vec<T> = model.clone().rev().copied().collect();
        if got_count != n || got_last != want_last || got_fold != want_fold || got_rfold != want_rfold {
            c.violation(
                "iterator-differs-from-slice-iterator",
                name,
                format!("{name}: after {ops:?}: count() = {got_count} / last() = {got_last:?} / fold = {got_fold:?} / rfold = {got_rfold:?}; the slice iterator has {n} left: {want_fold:?}"),
                obj().set("iterator", name).set("ops", format!("{ops:?}")),
            );
            return false;
        }
    }
    // drain the rest from the front / via rev
    let rest: Vec<T> = if ops.len() % 2 == 0 { real.collect() } else { real.rev().collect() };
    let wrest: Vec<T> = if ops.len() % 2 == 0 { model.copied().collect() } else { model.rev().copied().collect() };
    if rest != wrest {
        c.violation("iterator-differs-from-slice-iterator", name, format!("{name}: after {ops:?} the rest is {rest:?}, expected {wrest:?}"), obj().set("iterator", name).set("ops", format!("{ops:?}")));
        return false;
    }
    true
}

fn all_sequences<I, T>(c: &mut Collector, name: &str, mk: &dyn Fn() -> I, all: &[T], maxlen: usize, shard: u64, nshards: u64)
where
    I: DoubleEndedIterator<Item = T> + Clone,
    T: PartialEq + Debug + Copy,
{
    let mut seq: Vec<usize> = Vec::new();
    let mut count = 0u64;
    // enumerate all sequences of length 0..=maxlen in lexicographic order
    loop {
        count += 1;
        if count % nshards == shard {
            let ops: Vec<IOp> = seq.iter().map(|i| IOPS[*i]).collect();
            c.count("iterator-op-sequences");
            c.distinct(fnv(format!("{name}{seq:?}").as_bytes()));
            if !de_iter_run(c, name, mk, all, &ops) {
                return;
            }
        }
        // next sequence
        if seq.len() < maxlen {
            seq.push(0);
        } else {
            loop {
                match seq.pop() {
                    None => return,
                    Some(l) if l + 1 < IOPS.len() => {
                        seq.push(l + 1);
                        break;
                    }
                    Some(_) => {}
                }
            }
        }
    }
}


/// Poll an enumerating iterator far past its end: a slice iterator stays exhausted for ever, so a
/// cursor that keeps moving (and wraps at 8 or 16 bits) shows up as a late `Some` or a size_hint
/// that comes back to life.
fn long_poll<I, T>(c: &mut Collector, name: &str, mk: &dyn Fn() -> I, all: &[T], polls: usize)
where
    I: DoubleEndedIterator<Item = T> + Clone,
    T: PartialEq + Debug + Copy,
{
    // (items taken from the front first, items taken from the back first, polling pattern)
    for front in 0..=all.len() {
        for back in [0usize, 1, all.len().saturating_sub(front)] {
            for pattern in 0..3u8 {
                c.eval();
                c.count("long-poll-histories");
                let mut real = mk();
                let mut model = all.iter();
                for _ in 0..back.min(all.len()) {
                    real.next_back();
                    model.next_back();
                }
                for _ in 0..front {
                    real.next();
                    model.next();
                }
                for i in 0..polls {
                    let from_back = match pattern {
                        0 => false,
                        1 => true,
                        _ => i % 2 == 1,
                    };
                    let (g, w) = if from_back { (real.next_back(), model.next_back().copied()) } else { (real.next(), model.next().copied()) };
                    if g != w || real.size_hint() != model.size_hint() {
                        c.violation(
                            "iterator-differs-from-slice-iterator",
                            name,
                            format!(
                                "{name}: {back} next_back, {front} next, then poll #{} ({}): returned {g:?} with size_hint {:?}; a slice iterator returns {w:?} with {:?}",
                                i + 1,
                                ["next", "next_back", "alternating"][pattern as usize],
                                real.size_hint(),
                                model.size_hint()
                            ),
                            obj().set("iterator", name).set("front", front as u64).set("back", back as u64).set("pattern", pattern as u64).set("poll", i as u64),
                        );
                        return;
                    }
                }
                c.add("polls-past-the-end", polls.saturating_sub(all.len()) as u64);
            }
        }
    }
}

fn long_poll_forward<I, T>(c: &mut Collector, name: &str, mk: &dyn Fn() -> I, all: &[T], polls: usize)
where
    I: Iterator<Item = T>,
    T: PartialEq + Debug + Copy,
{
    c.eval();
    c.count("long-poll-histories");
    let mut real = mk();
    let mut model = all.iter();
    for i in 0..polls + all.len() {
        let (g, w) = (real.next(), model.next().copied());
        if g != w || real.size_hint() != model.size_hint() {
            c.violation(
                "iterator-differs-from-slice-iterator",
                name,
                format!("{name}: next() #{}: returned {g:?} with size_hint {:?}; a slice iterator returns {w:?} with {:?}", i + 1, real.size_hint(), model.size_hint()),
                obj().set("iterator", name).set("poll", i as u64),
            );
            return;
        }
    }
    c.add("polls-past-the-end", polls as u64);
}

/// Code points whose low byte (or low 16 bits) equals `b`: a parser that narrows `char` to `u8`
/// instead of reading the UTF-8 bytes would take them for `b`.
fn aliases_of(b: u8) -> Vec<char> {
    [0x100u32, 0x200, 0x300, 0x1E00, 0x2400, 0x3000, 0xFF00, 0x1_0000, 0x1_F600, 0x10_FF00]
        .iter()
        .filter_map(|hi| char::from_u32(hi + b as u32))
        .collect()
}

/// Every valid spelling in `texts` with one character replaced by each of its wide aliases.
fn wide_alias_strings(c: &mut Collector, texts: &[String]) {
    for t in texts {
        let chars: Vec<char> = t.chars().collect();
        for i in 0..chars.len() {
            let b = chars[i] as u32 as u8;
            for variant in [b, b ^ 0x20] {
                for w in aliases_of(variant) {
                    let mut s = String::new();
                    for (j, ch) in chars.iter().enumerate() {
                        s.push(if j == i { w } else { *ch });
                    }
                    c.count("wide-alias-strings");
                    check_bytes(c, s.as_bytes());
                }
            }
        }
    }
}

fn forward_iter<I, T>(c: &mut Collector, name: &str, mk: &dyn Fn() -> I, all: &[T])
where
    I: Iterator<Item = T> + Clone,
    T: PartialEq + Debug + Copy,
{
    for skip in 0..=all.len() + 1 {
        for n in [0usize, 1, 2, 7, 8, 63, 64, 65, 200] {
            c.eval();
            let mut real = mk();
            let mut model = all.iter();
            for _ in 0..skip {
                real.next();
                model.next();
            }
            if real.size_hint() != model.size_hint() {
                c.violation("iterator-differs-from-slice-iterator", name, format!("{name}: size_hint after {skip} items {:?} vs {:?}", real.size_hint(), model.size_hint()), obj().set("iterator", name));
                return;
            }
            let (g, w) = (real.nth(n), model.nth(n).copied());
            if g != w || real.next() != model.next().copied() {
                c.violation("iterator-differs-from-slice-iterator", name, format!("{name}: skip {skip} then nth({n}) = {g:?}, expected {w:?}"), obj().set("iterator", name));
                return;
            }
        }
    }
}

pub fn run(c: &mut Collector, a: &Args) {
    let mut rng = Rng::new(mix3(a.seed, a.shard, 0xC19));
    if a.shard == 0 {
        c.journal("geometry");
        geometry(c);
    }
    // all 1-byte and all 2-byte strings, the empty string
    if a.shard == 0 {
        check_bytes(c, b"");
        for b in 0..=255u8 {
            c.distinct(0x1900000 + b as u64);
            check_bytes(c, &[b]);
        }
        c.add("one-byte-strings", 256);
    }
    let step2 = if a.small { 97 } else { 1 };
    for x in 0..=255u16 {
        if x as u64 % a.nshards != a.shard {
            continue;
        }
        c.journal(&format!("two-byte {x}"));
        for y in 0..=255u16 {
            if (x * 256 + y) % step2 != 0 {
                continue;
            }
            c.distinct(0x2900000 + (x as u64) * 256 + y as u64);
            c.count("two-byte-strings");
            check_bytes(c, &[x as u8, y as u8]);
        }
    }
    // all 4- and 5-byte strings over the relevant alphabet
    let alpha: [u8; 15] = [b'a', b'h', b'A', b'H', b'i', b'`', b'@', b'1', b'8', b'0', b'9', b'-', b' ', 0, 0xE1];
    let n = alpha.len() as u64;
    let total4 = n.pow(4);
    let total5 = n.pow(5);
    let stride = if a.small { 5003 } else { 1 };
    let mut i = a.shard;
    while i < total4 {
        if i % stride == 0 || !a.small {
            let s = [alpha[(i % n) as usize], alpha[(i / n % n) as usize], alpha[(i / n / n % n) as usize], alpha[(i / n / n / n % n) as usize]];
            c.count("four-byte-move-strings");
            check_bytes(c, &s);
        }
        i += a.nshards;
    }
    let mut i = a.shard;
    while i < total5 {
        if i % stride == 0 || !a.small {
            let s = [alpha[(i % n) as usize], alpha[(i / n % n) as usize], alpha[(i / n / n % n) as usize], alpha[(i / n / n / n % n) as usize], alpha[(i / n / n / n / n % n) as usize]];
            c.count("five-byte-move-strings");
            check_bytes(c, &s);
        }
        i += a.nshards;
    }
    // all valid spellings with one corrupted byte, and 6-byte extensions
    let mut k = 0u64;
    for from in 0..64u8 {
        for to in 0..64u8 {
            k += 1;
            if k % a.nshards != a.shard || (a.small && k % 101 != 0) {
                continue;
            }
            let base = format!("{}-{}", pos(from), pos(to)).into_bytes();
            let i = rng.below(5) as usize;
            let mut m = base.clone();
            m[i] = rng.below(256) as u8;
            check_bytes(c, &m);
            let mut l = base.clone();
            l.push(*rng.pick(b"qrbnQRBN x1"));
            check_bytes(c, &l);
            c.add("corrupted-valid-moves", 2);
        }
    }
    // structured move spellings of every length: square, separator, square (+ suffix)
    {
        let seps: [&[u8]; 16] = [b"", b"-", b"--", b"---", b"----------", b" ", b"- ", b" -", b"x", b":", b"=", b"\xe2\x80\x93", b"_", b"->", b"-\0", b"\0"];
        let sufs: [&[u8]; 8] = [b"", b"q", b"Q", b"=Q", b" ", b"-", b"\n", b"+"];
        let mut k = 0u64;
        for from in 0..64u8 {
            for to in 0..64u8 {
                k += 1;
                if k % a.nshards != a.shard || (a.small && k % 211 != 0) {
                    continue;
                }
                let sep = seps[(k as usize / 7) % seps.len()];
                let suf = sufs[(k as usize / 3) % sufs.len()];
                for upper in [false, true] {
                    let mut sfrom = pos(from).to_string().into_bytes();
                    let mut sto = pos(to).to_string().into_bytes();
                    if upper {
                        sfrom.make_ascii_uppercase();
                        sto.make_ascii_uppercase();
                    }
                    let mut v = sfrom.clone();
                    v.extend_from_slice(sep);
                    v.extend_from_slice(&sto);
                    v.extend_from_slice(suf);
                    check_bytes(c, &v);
                    c.count("structured-move-spellings");
                }
            }
        }
        // every separator x suffix on a few fixed moves
        if a.shard == 0 {
            for sep in seps {
                for suf in sufs {
                    for (f, t) in [(12u8, 28u8), (0, 63), (52, 60)] {
                        let mut v = pos(f).to_string().into_bytes();
                        v.extend_from_slice(sep);
                        v.extend_from_slice(pos(t).to_string().as_bytes());
                        v.extend_from_slice(suf);
                        check_bytes(c, &v);
                        let mut w = b" ".to_vec();
                        w.extend_from_slice(&v);
                        check_bytes(c, &w);
                    }
                }
            }
        }
    }
    // seeded strings of length 0..8
    for _ in 0..(if a.small { 200 } else { 200_000 / a.nshards.max(1) }) {
        let len = rng.below(9) as usize;
        let s: Vec<u8> = (0..len).map(|_| if rng.chance(2, 3) { *rng.pick(b"abcdefghABCDEFGH12345678-pnbrqkPNBRQK09 ") } else { rng.below(256) as u8 }).collect();
        c.count("seeded-strings");
        check_bytes(c, &s);
    }
    // wide characters that alias a valid byte when narrowed
    {
        let mut texts: Vec<String> = Vec::new();
        if a.shard == 0 {
            for t in ["a", "h", "A", "H", "1", "8", "p", "n", "b", "r", "q", "k", "P", "N", "B", "R", "Q", "K"] {
                texts.push(t.to_string());
            }
            for s in 0..64u8 {
                texts.push(pos(s).to_string());
            }
        }
        let mut k = 0u64;
        for from in 0..64u8 {
            for to in 0..64u8 {
                k += 1;
                if k % a.nshards != a.shard || k % (if a.small { 409 } else { 13 }) != 0 {
                    continue;
                }
                texts.push(format!("{}{}", pos(from), pos(to)));
                texts.push(format!("{}-{}", pos(from), pos(to)).to_uppercase());
            }
        }
        c.journal("wide alias strings");
        wide_alias_strings(c, &texts);
    }
    // iterators
    let maxlen = if a.small { 2 } else { 6 };
    let colors = [Color::White, Color::Black];
    let sides = [Side::King, Side::Queen];
    let pieces = [Piece::Pawn, Piece::Knight, Piece::Bishop, Piece::Rook, Piece::Queen, Piece::King];
    let files: Vec<File> = (0..8).map(|i| File::from_u8(i).unwrap()).collect();
    let ranks: Vec<Rank> = (0..8).map(|i| Rank::from_u8(i).unwrap()).collect();
    c.journal("iterators");
    all_sequences(c, "Color::all", &Color::all, &colors, maxlen, a.shard, a.nshards);
    all_sequences(c, "Side::all", &Side::all, &sides, maxlen, a.shard, a.nshards);
    all_sequences(c, "Piece::all", &Piece::all, &pieces, maxlen, a.shard, a.nshards);
    all_sequences(c, "File::all", &File::all, &files, maxlen, a.shard, a.nshards);
    all_sequences(c, "Rank::all", &Rank::all, &ranks, maxlen, a.shard, a.nshards);
    if a.shard == 0 {
        let squares: Vec<chess_bitboard::Pos> = (0..64).map(pos).collect();
        forward_iter(c, "Pos::all", &chess_bitboard::Pos::all, &squares);
        for i in 0..8u8 {
            let f = File::from_u8(i).unwrap();
            let r = Rank::from_u8(i).unwrap();
            let fs: Vec<chess_bitboard::Pos> = (0..8).map(|k| pos(k * 8 + i)).collect();
            let rs: Vec<chess_bitboard::Pos> = (0..8).map(|k| pos(i * 8 + k)).collect();
            forward_iter(c, "File::iter", &move || f.iter(), &fs);
            forward_iter(c, "Rank::iter", &move || r.iter(), &rs);
        }
    }
    // polling far past the end (8- and 16-bit cursor wrap)
    {
        c.journal("long polls");
        let polls = if a.small { 300 } else { 70_000 };
        match a.shard % 5 {
            0 => long_poll(c, "Color::all", &Color::all, &colors, polls),
            1 => long_poll(c, "Side::all", &Side::all, &sides, polls),
            2 => long_poll(c, "Piece::all", &Piece::all, &pieces, polls),
            3 => long_poll(c, "File::all", &File::all, &files, polls),
            _ => long_poll(c, "Rank::all", &Rank::all, &ranks, polls),
        }
        if a.nshards < 5 {
            for k in 0..5u64 {
                if k == a.shard % 5 {
                    continue;
                }
                match k {
                    0 => long_poll(c, "Color::all", &Color::all, &colors, polls),
                    1 => long_poll(c, "Side::all", &Side::all, &sides, polls),
                    2 => long_poll(c, "Piece::all", &Piece::all, &pieces, polls),
                    3 => long_poll(c, "File::all", &File::all, &files, polls),
                    _ => long_poll(c, "Rank::all", &Rank::all, &ranks, polls),
                }
            }
        }
        if a.shard == 0 {
            let squares: Vec<chess_bitboard::Pos> = (0..64).map(pos).collect();
            long_poll_forward(c, "Pos::all", &chess_bitboard::Pos::all, &squares, polls);
            let f = File::from_u8(3).unwrap();
            let r = Rank::from_u8(6).unwrap();
            let fs: Vec<chess_bitboard::Pos> = (0..8).map(|k| pos(k * 8 + 3)).collect();
            let rs: Vec<chess_bitboard::Pos> = (0..8).map(|k| pos(6 * 8 + k)).collect();
            long_poll_forward(c, "File::iter", &move || f.iter(), &fs, polls);
            long_poll_forward(c, "Rank::iter", &move || r.iter(), &rs, polls);
        }
    }
    // huge skip counts, from both ends, after 0..2 preceding steps
    for n in huge_counts() {
        for pre in [vec![], vec![IOp::Next], vec![IOp::NextBack], vec![IOp::Next, IOp::NextBack]] {
            for last in [IOp::Nth(n), IOp::NthBack(n)] {
                let mut ops = pre.clone();
                ops.push(last);
                ops.push(IOp::Next);
                de_iter_run(c, "Color::all", &Color::all, &colors, &ops);
                de_iter_run(c, "Side::all", &Side::all, &sides, &ops);
                de_iter_run(c, "Piece::all", &Piece::all, &pieces, &ops);
                de_iter_run(c, "File::all", &File::all, &files, &ops);
                de_iter_run(c, "Rank::all", &Rank::all, &ranks, &ops);
                c.add("huge-skip-count-sequences", 5);
            }
        }
    }
    if a.shard == 0 {
        let squares: Vec<chess_bitboard::Pos> = (0..64).map(pos).collect();
        for n in huge_counts() {
            c.eval();
            let mut it = chess_bitboard::Pos::all();
            it.next();
            if it.nth(n).is_some() || it.next().is_some() && false {
                c.violation("iterator-differs-from-slice-iterator", "Pos::all", format!("Pos::all: nth({n}) returned an element"), obj().set("iterator", "Pos::all"));
            }
            let _ = &squares;
        }
    }
    // seeded longer sequences
    for _ in 0..(if a.small { 20 } else { 3000 }) {
        let len = rng.range(7, 14) as usize;
        let ops: Vec<IOp> = (0..len).map(|_| *rng.pick(&IOPS)).collect();
        de_iter_run(c, "File::all", &File::all, &files, &ops);
        de_iter_run(c, "Rank::all", &Rank::all, &ranks, &ops);
        de_iter_run(c, "Piece::all", &Piece::all, &pieces, &ops);
        c.add("seeded-long-iterator-sequences", 3);
    }
    c.sample(obj().set("input", "E2-e4").set("parsed", format!("{:?}", "E2-e4".parse::<ChessMove>())));
    c.sample(obj().set("iterator", "File::all").set("ops", "[NextBack, Nth(1), NthBack(0)]").set("result", format!("{:?}", { let mut i = File::all(); (i.next_back(), i.nth(1), i.nth_back(0)) })));
}
