//! mon-tables: monitors for C08 (slider lookup), C09 (geometry tables), C16 (ABI encodings),
//! C17 (opening book), C18 (bitboards as sets), C19 (text forms and enum iterators).
//!
//! usage: mon-tables <C08|C09|C16|C17|C18|C19|merge-hashes> [--tier ..] [--seed N] [--shard I]
//!        [--nshards N] [--out file] [--journal file] [--small] [--replay file]
//! `--small` selects the reduced workloads used under Miri / valgrind.

mod c08;
mod c09;
mod c16;
mod c17;
mod c18;
mod c19;

use refmodel::json::J;
use refmodel::report::{self, Collector};

pub struct Args {
    pub cmd: String,
    pub tier: String,
    pub seed: u64,
    pub shard: u64,
    pub nshards: u64,
    pub out: Option<String>,
    pub journal: Option<String>,
    pub small: bool,
    pub replay: Option<String>,
    pub rest: Vec<String>,
}

fn parse_args() -> Args {
    let mut a = Args {
        cmd: String::new(),
        tier: "quick".into(),
        seed: 1,
        shard: 0,
        nshards: 1,
        out: None,
        journal: None,
        small: false,
        replay: None,
        rest: vec![],
    };
    let mut it = std::env::args().skip(1);
    a.cmd = it.next().unwrap_or_default();
    while let Some(x) = it.next() {
        match x.as_str() {
            "--tier" => a.tier = it.next().unwrap(),
            "--seed" => a.seed = it.next().unwrap().parse().unwrap(),
            "--shard" => a.shard = it.next().unwrap().parse().unwrap(),
            "--nshards" => a.nshards = it.next().unwrap().parse().unwrap(),
            "--out" => a.out = it.next(),
            "--journal" => a.journal = it.next(),
            "--scale" => {
                it.next();
            }
            "--small" => a.small = true,
            "--replay" => a.replay = it.next(),
            _ => a.rest.push(x),
        }
    }
    a
}

fn finish(c: &Collector, a: &Args) {
    let text = c.to_json().dump();
    match &a.out {
        Some(p) => {
            std::fs::write(p, &text).expect("write result");
            c.write_hashes(&format!("{p}.hashes"));
        }
        None => println!("{text}"),
    }
}

fn main() {
    let a = parse_args();
    if a.cmd == "merge-hashes" {
        println!("{}", report::merge_hash_files(&a.rest));
        return;
    }
    let mut c = Collector::new(&a.cmd, a.journal.as_deref());
    if let Some(rp) = &a.replay {
        let text = std::fs::read_to_string(rp).expect("read replay");
        let j = J::parse(&text).expect("parse replay");
        println!("recorded case:\n{}", j.get("detail").and_then(|d| d.as_str()).unwrap_or(""));
        // the table monitors are deterministic enumerations: re-run the whole (cheap) check
    }
    // a panic inside a monitored operation (overflow check, debug assertion, bounds check) is a
    // finding about the code under test, not a reason to lose the run
    let known = matches!(a.cmd.as_str(), "C08" | "C09" | "C16" | "C17" | "C18" | "C19");
    if !known {
        eprintln!("unknown command {:?}", a.cmd);
        std::process::exit(2);
    }
    let panic_msg = std::sync::Arc::new(std::sync::Mutex::new(String::new()));
    let pm = panic_msg.clone();
    std::panic::set_hook(Box::new(move |info| {
        *pm.lock().unwrap() = info.to_string();
        eprintln!("{info}");
    }));
    let r = std::panic::catch_unwind(std::panic::AssertUnwindSafe(|| match a.cmd.as_str() {
        "C08" => c08::run(&mut c, &a),
        "C09" => c09::run(&mut c, &a),
        "C16" => c16::run(&mut c, &a),
        "C17" => c17::run(&mut c, &a),
        "C18" => c18::run(&mut c, &a),
        _ => c19::run(&mut c, &a),
    }));
    if r.is_err() {
        let msg = panic_msg.lock().unwrap().clone();
        let site: String = msg.lines().next().unwrap_or("").chars().take(160).collect();
        c.violation(
            "operation-panicked",
            &site,
            format!("a monitored operation panicked: {msg}"),
            refmodel::json::obj().set("panic", msg.as_str()),
        );
    }
    if a.replay.is_some() {
        for v in &c.violations {
            println!("VIOLATION property={} replay={}\n  {}/{}: {}", a.cmd, a.replay.as_deref().unwrap(), v.kind, v.signature, v.detail);
        }
        std::process::exit(if c.violation_total > 0 { 1 } else { 0 });
    }
    finish(&c, &a);
}

// ------------------------------------------------------------------------------------ helpers

use chess_bitboard::{BitBoard, Pos};

pub fn pos(s: u8) -> Pos {
    Pos::from_u8(s).unwrap()
}
pub fn bb(x: u64) -> BitBoard {
    BitBoard::from_u64(x)
}
pub fn bit(f: i32, r: i32) -> u64 {
    if (0..8).contains(&f) && (0..8).contains(&r) {
        1u64 << (r * 8 + f)
    } else {
        0
    }
}
/// squares reached from (f,r) sliding in direction (df,dr) up to and including the first occupied
pub fn ray_attack(f: i32, r: i32, df: i32, dr: i32, occ: u64) -> u64 {
    let mut out = 0u64;
    let (mut x, mut y) = (f + df, r + dr);
    while (0..8).contains(&x) && (0..8).contains(&y) {
        let b = 1u64 << (y * 8 + x);
        out |= b;
        if occ & b != 0 {
            break;
        }
        x += df;
        y += dr;
    }
    out
}
pub fn full_ray(f: i32, r: i32, df: i32, dr: i32) -> u64 {
    ray_attack(f, r, df, dr, 0)
}
pub const ROOK_DIRS: [(i32, i32); 4] = [(1, 0), (-1, 0), (0, 1), (0, -1)];
pub const BISHOP_DIRS: [(i32, i32); 4] = [(1, 1), (-1, 1), (1, -1), (-1, -1)];
