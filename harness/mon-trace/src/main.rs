//! mon-trace: C20 — a thread's view of "tracing enabled" is its own override if set, else the
//! latest global setting; other threads can change only the global setting.
//!
//! Mechanism 1 (turnstile): worker threads execute one operation when told; after every step the
//! controller asks EVERY thread for is_enabled() and compares with the model (DESIGN A.5).  All
//! schedules over {threads} x {8 ops} up to a bounded length are enumerated, plus seeded long ones.
//! Mechanism 2 (free-running): threads issue seeded operations without coordination; per-thread
//! invariants that must hold under every interleaving are asserted in place and the global flag's
//! history (write / xor / read with real-time intervals from one ticket counter) is checked for
//! linearizability by brute force on many short histories.  The same binary runs under Miri
//! (-Zmiri-many-seeds) and ThreadSanitizer for data races.

use refmodel::json::obj;
use refmodel::report::{self, Collector};
use refmodel::rng::{fnv, mix3, Rng};
use std::sync::atomic::{AtomicU64, Ordering};
use std::sync::mpsc::{channel, Receiver, Sender};
use std::sync::{Arc, Barrier};
use tracing_enabled as te;

#[derive(Clone, Copy, Debug, PartialEq, Eq, Hash)]
enum Op {
    Enable,
    Disable,
    Toggle,
    LocalEnable,
    LocalDisable,
    LocalToggle,
    Take,
    Restore,
}
const OPS: [Op; 8] = [Op::Enable, Op::Disable, Op::Toggle, Op::LocalEnable, Op::LocalDisable, Op::LocalToggle, Op::Take, Op::Restore];

#[derive(Clone, Copy, Debug, PartialEq, Eq, Hash)]
enum Local {
    Inherit,
    On,
    Off,
}

#[derive(Clone, Debug, PartialEq, Eq, Hash)]
struct Model {
    global: bool,
    local: Vec<Local>,
    saved: Vec<Vec<Local>>,
}

impl Model {
    fn new(t: usize) -> Model {
        Model { global: true, local: vec![Local::Inherit; t], saved: vec![vec![]; t] }
    }
    fn apply(&mut self, t: usize, op: Op) {
        let flip = |l: Local| match l {
            Local::Inherit => Local::Inherit,
            Local::On => Local::Off,
            Local::Off => Local::On,
        };
        match op {
            Op::Enable => {
                self.local[t] = Local::On;
                self.global = true;
            }
            Op::Disable => {
                self.local[t] = Local::Off;
                self.global = false;
            }
            Op::Toggle => {
                self.local[t] = flip(self.local[t]);
                self.global = !self.global;
            }
            Op::LocalEnable => self.local[t] = Local::On,
            Op::LocalDisable => self.local[t] = Local::Off,
            Op::LocalToggle => self.local[t] = flip(self.local[t]),
            Op::Take => {
                let l = self.local[t];
                self.saved[t].push(l);
                self.local[t] = Local::Inherit;
            }
            Op::Restore => {
                if let Some(l) = self.saved[t].pop() {
                    self.local[t] = l;
                }
            }
        }
    }
    fn view(&self, t: usize) -> bool {
        match self.local[t] {
            Local::On => true,
            Local::Off => false,
            Local::Inherit => self.global,
        }
    }
}

fn do_op(op: Op, saved: &mut Vec<te::LocalEnableState>) {
    match op {
        Op::Enable => te::enable(),
        Op::Disable => te::disable(),
        Op::Toggle => te::toggle(),
        Op::LocalEnable => te::local_enable(),
        Op::LocalDisable => te::local_disable(),
        Op::LocalToggle => te::local_toggle(),
        Op::Take => saved.push(te::local_take()),
        Op::Restore => {
            if let Some(s) = saved.pop() {
                te::restore(s)
            }
        }
    }
}

thread_local! {
    static DELIVERED: std::cell::Cell<u64> = const { std::cell::Cell::new(0) };
}

/// Counts, on the emitting thread, the events that get past `GlobalEnable` (which sits above it in
/// the subscriber stack, as in chess-cli/src/logs.rs).
struct CountLayer;
impl<S: tracing::Subscriber> tracing_subscriber::Layer<S> for CountLayer {
    fn on_event(&self, _event: &tracing::Event<'_>, _ctx: tracing_subscriber::layer::Context<'_, S>) {
        DELIVERED.with(|d| d.set(d.get() + 1));
    }
}

static EVENTS_ON: std::sync::atomic::AtomicBool = std::sync::atomic::AtomicBool::new(false);

fn install_subscriber() {
    use tracing_subscriber::layer::SubscriberExt;
    use tracing_subscriber::util::SubscriberInitExt;
    if cfg!(miri) {
        return;
    }
    if tracing_subscriber::registry().with(CountLayer).with(te::GlobalEnable).try_init().is_ok() {
        EVENTS_ON.store(true, Ordering::SeqCst);
    }
}

/// Second observation point: is an event emitted NOW by this thread delivered through the
/// `GlobalEnable` layer?  The callsite interest cache is rebuilt first, so that the answer reflects
/// the current view of this thread and not a decision cached when the callsite was first hit (the
/// per-callsite caching of tracing is outside the property).
fn event_delivered() -> bool {
    tracing::callsite::rebuild_interest_cache();
    let before = DELIVERED.with(|d| d.get());
    tracing::info!(target: "c20probe", "probe");
    DELIVERED.with(|d| d.get()) > before
}

/// Type-level part of the isolation: a saved override must not be transferable to another thread
/// (restoring it there would plant one thread's override on another).  Autoref-style probe: the
/// inherent method exists only when the token type is Send.
struct SendProbe<T>(std::marker::PhantomData<T>);
trait NotSendFallback {
    fn transferable(&self) -> bool {
        false
    }
}
impl<T> NotSendFallback for SendProbe<T> {}
impl<T: Send> SendProbe<T> {
    fn transferable(&self) -> bool {
        true
    }
}

enum Cmd {
    Do(Op),
    Query,
    QueryEvent,
    /// forget saved tokens and clear the override
    Reset,
    /// Reset, then make the global flag true again (enable(); local_take())
    ResetGlobal,
    Exit,
}

struct Worker {
    tx: Sender<Cmd>,
    rx: Receiver<bool>,
    handle: Option<std::thread::JoinHandle<()>>,
}

fn spawn_worker() -> Worker {
    let (tx, crx) = channel::<Cmd>();
    let (ctx, rx) = channel::<bool>();
    let handle = std::thread::spawn(move || {
        let mut saved: Vec<te::LocalEnableState> = Vec::new();
        while let Ok(cmd) = crx.recv() {
            match cmd {
                Cmd::Do(op) => {
                    do_op(op, &mut saved);
                    let _ = ctx.send(true);
                }
                Cmd::Query => {
                    let _ = ctx.send(te::is_enabled());
                }
                Cmd::QueryEvent => {
                    let _ = ctx.send(event_delivered());
                }
                Cmd::Reset => {
                    saved.clear();
                    drop(te::local_take());
                    let _ = ctx.send(true);
                }
                Cmd::ResetGlobal => {
                    saved.clear();
                    te::enable();
                    drop(te::local_take());
                    let _ = ctx.send(true);
                }
                Cmd::Exit => break,
            }
        }
    });
    Worker { tx, rx, handle: Some(handle) }
}

impl Worker {
    fn call(&self, c: Cmd) -> bool {
        self.tx.send(c).expect("worker alive");
        self.rx.recv().expect("worker reply")
    }
}

static EVENT_PROBES: AtomicU64 = AtomicU64::new(0);
static VIEW_CALLS: AtomicU64 = AtomicU64::new(0);
static EVENTS_EVERY_STEP: std::sync::atomic::AtomicBool = std::sync::atomic::AtomicBool::new(false);
static EVENT_MISMATCH: std::sync::atomic::AtomicBool = std::sync::atomic::AtomicBool::new(false);

struct Turnstile {
    workers: Vec<Worker>,
}

impl Turnstile {
    fn new(t: usize) -> Turnstile {
        Turnstile { workers: (0..t).map(|_| spawn_worker()).collect() }
    }
    fn reset(&self) {
        for w in &self.workers[1..] {
            w.call(Cmd::Reset);
        }
        self.workers[0].call(Cmd::ResetGlobal);
    }
    fn views(&self) -> Vec<bool> {
        let v: Vec<bool> = self.workers.iter().map(|w| w.call(Cmd::Query)).collect();
        // the event-delivery view is probed after every step of the graph-cover and sparse schedules
        // and after every 16th step elsewhere (each probe rebuilds the callsite interest cache)
        let tick = VIEW_CALLS.fetch_add(1, Ordering::Relaxed);
        if EVENTS_ON.load(Ordering::SeqCst) && (EVENTS_EVERY_STEP.load(Ordering::Relaxed) || tick % 16 == 0) {
            // the event-delivery view must agree with is_enabled() on every thread; a disagreement
            // is reported by returning the delivery view (the caller compares with the model)
            let ev: Vec<bool> = self.workers.iter().map(|w| w.call(Cmd::QueryEvent)).collect();
            EVENT_PROBES.fetch_add(ev.len() as u64, Ordering::Relaxed);
            for (i, e) in ev.iter().enumerate() {
                if *e != v[i] {
                    EVENT_MISMATCH.store(true, Ordering::SeqCst);
                    return ev;
                }
            }
        }
        v
    }
    /// Returns Err((step, thread, observed, expected)) at the first disagreement.
    fn run(&self, sched: &[(usize, Op)], states: &mut std::collections::HashSet<(bool, Vec<Local>)>, trans: &mut std::collections::HashSet<((bool, Vec<Local>), usize, Op)>) -> Result<(), (usize, usize, bool, bool)> {
        let t = self.workers.len();
        let mut m = Model::new(t);
        self.reset();
        let v = self.views();
        for (u, got) in v.iter().enumerate() {
            if *got != m.view(u) {
                return Err((0, u, *got, m.view(u)));
            }
        }
        for (i, &(th, op)) in sched.iter().enumerate() {
            let before = (m.global, m.local.clone());
            trans.insert((before, th, op));
            self.workers[th].call(Cmd::Do(op));
            m.apply(th, op);
            states.insert((m.global, m.local.clone()));
            let v = self.views();
            for (u, got) in v.iter().enumerate() {
                if *got != m.view(u) {
                    return Err((i + 1, u, *got, m.view(u)));
                }
            }
        }
        Ok(())
    }
}

impl Drop for Turnstile {
    fn drop(&mut self) {
        for w in &mut self.workers {
            let _ = w.tx.send(Cmd::Exit);
            if let Some(h) = w.handle.take() {
                let _ = h.join();
            }
        }
    }
}

fn sched_text(s: &[(usize, Op)]) -> String {
    s.iter().map(|(t, o)| format!("{o:?}@{t}")).collect::<Vec<_>>().join(" ")
}

fn report_turnstile(c: &mut Collector, sched: &[(usize, Op)], e: (usize, usize, bool, bool), threads: usize) {
    let (step, u, got, want) = e;
    let last = if step == 0 { "reset".to_string() } else { format!("{:?}@{}", sched[step - 1].1, sched[step - 1].0) };
    let mut kind = if step > 0 && sched[step - 1].0 != u { "override-changed-by-other-thread" } else { "own-view-wrong" };
    if EVENT_MISMATCH.swap(false, Ordering::SeqCst) {
        kind = "event-delivery-differs-from-view";
    }
    c.violation(
        kind,
        &if step == 0 { "reset".to_string() } else { format!("{:?}", sched[step - 1].1) },
        format!(
            "{threads} threads, schedule [{}]: after step {step} ({last}) thread {u} sees is_enabled() = {got}, model says {want}",
            sched_text(&sched[..step.min(sched.len())])
        ),
        obj().set("threads", threads).set("schedule", sched[..step.min(sched.len())].iter().map(|(t, o)| format!("{o:?}@{t}")).collect::<Vec<_>>()),
    );
}

fn turnstile_exhaustive(c: &mut Collector, threads: usize, len: usize, shard: u64, nshards: u64) {
    let ts = Turnstile::new(threads);
    let base = threads * OPS.len();
    let total = (base as u64).pow(len as u32);
    let mut states = std::collections::HashSet::new();
    let mut trans = std::collections::HashSet::new();
    let mut i = shard;
    while i < total {
        let mut x = i;
        let mut sched = Vec::with_capacity(len);
        for _ in 0..len {
            let d = (x % base as u64) as usize;
            x /= base as u64;
            sched.push((d / OPS.len(), OPS[d % OPS.len()]));
        }
        c.eval();
        c.count(&format!("turnstile-schedules:T{threads}-L{len}"));
        if i % 4096 == shard {
            c.journal(&format!("turnstile T{threads} [{}]", sched_text(&sched)));
        }
        c.distinct(fnv(format!("{threads}|{}", sched_text(&sched)).as_bytes()));
        if let Err(e) = ts.run(&sched, &mut states, &mut trans) {
            report_turnstile(c, &sched, e, threads);
            break;
        }
        i += nshards;
    }
    c.max(&format!("max:model-states-visited-T{threads}"), states.len() as u64);
    c.max(&format!("max:model-transitions-covered-T{threads}"), trans.len() as u64);
    // the reachable (global, locals) graph: 2 * 3^T states, each with T*8 transitions
    c.max(&format!("max:model-states-total-T{threads}"), 2 * 3u64.pow(threads as u32));
    c.max(&format!("max:model-transitions-total-T{threads}"), 2 * 3u64.pow(threads as u32) * (threads * OPS.len()) as u64);
}

/// Cover the whole reachable model graph: BFS path to every (global, locals) state, then every
/// (thread, op) transition out of it.
fn turnstile_graph_cover(c: &mut Collector, threads: usize) {
    use std::collections::{HashMap, VecDeque};
    let ts = Turnstile::new(threads);
    let start = Model::new(threads);
    let key = |m: &Model| (m.global, m.local.clone());
    let mut paths: HashMap<(bool, Vec<Local>), Vec<(usize, Op)>> = HashMap::new();
    paths.insert(key(&start), vec![]);
    let mut q = VecDeque::new();
    q.push_back(start);
    while let Some(m) = q.pop_front() {
        let p = paths[&key(&m)].clone();
        for t in 0..threads {
            for op in OPS {
                let mut n = m.clone();
                n.apply(t, op);
                n.saved = vec![vec![]; threads];
                if !paths.contains_key(&key(&n)) {
                    let mut np = p.clone();
                    np.push((t, op));
                    paths.insert(key(&n), np);
                    q.push_back(n);
                }
            }
        }
    }
    let mut states = std::collections::HashSet::new();
    let mut trans = std::collections::HashSet::new();
    'outer: for path in paths.values() {
        for t in 0..threads {
            for op in OPS {
                // Restore with a token: precede by Take so that the token stack is non-empty
                let mut sched = path.clone();
                sched.push((t, op));
                c.eval();
                c.count(&format!("turnstile-graph-cover-schedules:T{threads}"));
                c.distinct(fnv(format!("cover{threads}|{}", sched_text(&sched)).as_bytes()));
                if let Err(e) = ts.run(&sched, &mut states, &mut trans) {
                    report_turnstile(c, &sched, e, threads);
                    break 'outer;
                }
            }
        }
    }
    c.add(&format!("graph-states-covered-T{threads}"), states.len() as u64 + 0);
    c.add(&format!("graph-transitions-covered-T{threads}"), trans.len() as u64);
    c.add(&format!("graph-states-total-T{threads}"), paths.len() as u64);
    c.add(&format!("graph-transitions-total-T{threads}"), (paths.len() * threads * OPS.len()) as u64);
}

fn turnstile_seeded(c: &mut Collector, seed: u64, shard: u64, n: u64, len: usize) {
    for h in 0..n {
        let mut rng = Rng::new(mix3(seed, shard, 0x7057 + h));
        let threads = rng.range(2, 4) as usize;
        let ts = Turnstile::new(threads);
        let sched: Vec<(usize, Op)> = (0..len).map(|_| (rng.below(threads as u64) as usize, *rng.pick(&OPS))).collect();
        c.eval();
        c.count("turnstile-seeded-long-schedules");
        c.journal(&format!("turnstile-seeded T{threads} [{}]", sched_text(&sched[..sched.len().min(40)])));
        c.distinct(fnv(format!("{threads}|{}", sched_text(&sched)).as_bytes()));
        let mut states = std::collections::HashSet::new();
        let mut trans = std::collections::HashSet::new();
        if let Err(e) = ts.run(&sched, &mut states, &mut trans) {
            report_turnstile(c, &sched, e, threads);
            break;
        }
        if c.want_sample() {
            c.sample(obj().set("threads", threads).set("schedule_prefix", sched_text(&sched[..12.min(sched.len())])));
        }
    }
}

/// Sparse observation: the observer does NOT look after every step.  T1 looks once, optionally hides
/// behind a scoped override (take + local_enable ... restore), T2 performs exactly `n` global
/// operations, then every thread (and a freshly spawned one) is compared with the model.  Catches
/// state that goes stale only after a particular number of unobserved operations (e.g. a wrapping
/// generation counter).
fn sparse_observation(c: &mut Collector, max_n: usize, extra: &[usize]) {
    let ts = Turnstile::new(2);
    let ns: Vec<usize> = (1..=max_n).chain(extra.iter().copied()).collect();
    for n in ns {
        for hide in [false, true] {
            c.eval();
            c.count("sparse-observation-cases");
            c.distinct(fnv(format!("sparse|{n}|{hide}").as_bytes()));
            let mut m = Model::new(2);
            ts.reset();
            let mut sched: Vec<(usize, Op)> = Vec::new();
            let v0 = ts.views();
            if v0[0] != m.view(0) || v0[1] != m.view(1) {
                report_turnstile(c, &sched, (0, 0, v0[0], m.view(0)), 2);
                return;
            }
            if hide {
                for op in [Op::Take, Op::LocalEnable] {
                    ts.workers[0].call(Cmd::Do(op));
                    m.apply(0, op);
                    sched.push((0, op));
                }
            }
            // n global operations on thread 1, ending in a value different from the start
            for i in 0..n {
                let op = if i + 1 == n { Op::Disable } else if i % 7 == 3 { Op::Enable } else { Op::Toggle };
                ts.workers[1].call(Cmd::Do(op));
                m.apply(1, op);
                sched.push((1, op));
            }
            if hide {
                ts.workers[0].call(Cmd::Do(Op::Restore));
                m.apply(0, Op::Restore);
                sched.push((0, Op::Restore));
            }
            // thread 1 drops its own override so that it reads the global value too
            ts.workers[1].call(Cmd::Do(Op::Take));
            m.apply(1, Op::Take);
            sched.push((1, Op::Take));
            let v = ts.views();
            for u in 0..2 {
                if v[u] != m.view(u) {
                    let kind = if u == 0 { "override-changed-by-other-thread" } else { "own-view-wrong" };
                    c.violation(
                        kind,
                        "sparse-observation",
                        format!(
                            "thread 0 looked, {}thread 1 performed {n} global operations unobserved (last = disable){}: thread {u} sees is_enabled() = {}, model says {}",
                            if hide { "hid behind take+local_enable, " } else { "" },
                            if hide { ", thread 0 restored" } else { "" },
                            v[u],
                            m.view(u)
                        ),
                        obj().set("threads", 2u64).set("schedule", sched.iter().map(|(t, o)| format!("{o:?}@{t}")).collect::<Vec<_>>()),
                    );
                    return;
                }
            }
            // a freshly spawned thread has no override and must see the global value
            let fresh = std::thread::spawn(te::is_enabled).join().unwrap();
            if fresh != m.global {
                c.violation(
                    "own-view-wrong",
                    "fresh-thread",
                    format!("after {n} global operations (last = disable) a freshly spawned thread sees is_enabled() = {fresh}, the global setting is {}", m.global),
                    obj().set("threads", 2u64).set("schedule", sched.iter().map(|(t, o)| format!("{o:?}@{t}")).collect::<Vec<_>>()),
                );
                return;
            }
        }
    }
}

/// Same-setter race: the global flag is `!v`, several threads call the SAME setter (enable or
/// disable) at the same instant; whatever the interleaving, afterwards a thread without override must
/// read `v`.  (Catches check-then-flip implementations of a store.)
fn same_setter_race(c: &mut Collector, rounds: u64) {
    for r in 0..rounds {
        let v = r % 2 == 0;
        let threads = 2 + (r % 3) as usize;
        // establish global = !v, no override on this thread
        if v {
            te::disable();
        } else {
            te::enable();
        }
        drop(te::local_take());
        let barrier = Arc::new(Barrier::new(threads));
        let hs: Vec<_> = (0..threads)
            .map(|i| {
                let b = barrier.clone();
                std::thread::spawn(move || {
                    b.wait();
                    // a tiny skew sweep so that loads and stores of different threads overlap
                    for _ in 0..(i as u64 * (r % 5)) {
                        std::hint::spin_loop();
                    }
                    if v {
                        te::enable()
                    } else {
                        te::disable()
                    }
                })
            })
            .collect();
        for h in hs {
            h.join().unwrap();
        }
        c.eval();
        c.count("same-setter-race-rounds");
        let seen = te::is_enabled();
        if seen != v {
            c.violation(
                "global-flag-not-linearizable",
                "same-setter-race",
                format!("global flag was {}, {threads} threads concurrently called {}() and returned, a thread without override then reads {seen}", !v, if v { "enable" } else { "disable" }),
                obj().set("round", r).set("threads", threads),
            );
            break;
        }
    }
    te::enable();
    drop(te::local_take());
}

// ------------------------------------------------------------------------------ free-running

#[derive(Clone, Copy, Debug)]
enum GOp {
    Write(bool),
    Xor,
    Read(bool),
}

#[derive(Clone, Copy, Debug)]
struct Ev {
    thread: usize,
    op: GOp,
    t0: u64,
    t1: u64,
}

/// Brute-force linearizability of a register history with write / xor / read.
fn linearizable(evs: &[Ev], init: bool) -> bool {
    fn go(evs: &[Ev], done: &mut Vec<bool>, n_done: usize, val: bool) -> bool {
        if n_done == evs.len() {
            return true;
        }
        // candidates: not done, and no other pending op finished strictly before it started
        for i in 0..evs.len() {
            if done[i] {
                continue;
            }
            let minimal = (0..evs.len()).all(|j| done[j] || j == i || !(evs[j].t1 < evs[i].t0));
            if !minimal {
                continue;
            }
            let next = match evs[i].op {
                GOp::Write(b) => Some(b),
                GOp::Xor => Some(!val),
                GOp::Read(r) => {
                    if r == val {
                        Some(val)
                    } else {
                        None
                    }
                }
            };
            if let Some(nv) = next {
                done[i] = true;
                if go(evs, done, n_done + 1, nv) {
                    done[i] = false;
                    return true;
                }
                done[i] = false;
            }
        }
        false
    }
    let mut done = vec![false; evs.len()];
    go(evs, &mut done, 0, init)
}

/// One short free-running round: T threads, each `per` operations, started together.
fn free_round(c: &mut Collector, rng: &mut Rng, threads: usize, per: usize, round: u64) -> bool {
    // establish a known global value first (single-threaded): enable() then drop the override
    te::enable();
    drop(te::local_take());
    let init = true;
    let ticket = Arc::new(AtomicU64::new(1));
    let barrier = Arc::new(Barrier::new(threads));
    let mut plans: Vec<Vec<Op>> = Vec::new();
    for _ in 0..threads {
        plans.push((0..per).map(|_| *rng.pick(&[Op::Toggle, Op::Toggle, Op::Enable, Op::Disable, Op::LocalEnable, Op::LocalDisable, Op::LocalToggle, Op::Take, Op::Restore, Op::Toggle])).collect());
    }
    let mut handles = Vec::new();
    for (t, plan) in plans.iter().cloned().enumerate() {
        let ticket = ticket.clone();
        let barrier = barrier.clone();
        handles.push(std::thread::spawn(move || {
            let mut evs: Vec<Ev> = Vec::new();
            let mut errs: Vec<String> = Vec::new();
            let mut saved: Vec<te::LocalEnableState> = Vec::new();
            let mut local = Local::Inherit;
            let mut msaved: Vec<Local> = Vec::new();
            barrier.wait();
            for (i, op) in plan.iter().enumerate() {
                let t0 = ticket.fetch_add(1, Ordering::SeqCst);
                do_op(*op, &mut saved);
                let t1 = ticket.fetch_add(1, Ordering::SeqCst);
                // thread-local model of the override
                let flip = |l: Local| match l {
                    Local::Inherit => Local::Inherit,
                    Local::On => Local::Off,
                    Local::Off => Local::On,
                };
                match op {
                    Op::Enable => {
                        local = Local::On;
                        evs.push(Ev { thread: t, op: GOp::Write(true), t0, t1 });
                    }
                    Op::Disable => {
                        local = Local::Off;
                        evs.push(Ev { thread: t, op: GOp::Write(false), t0, t1 });
                    }
                    Op::Toggle => {
                        local = flip(local);
                        evs.push(Ev { thread: t, op: GOp::Xor, t0, t1 });
                    }
                    Op::LocalEnable => local = Local::On,
                    Op::LocalDisable => local = Local::Off,
                    Op::LocalToggle => local = flip(local),
                    Op::Take => {
                        msaved.push(local);
                        local = Local::Inherit;
                    }
                    Op::Restore => {
                        if let Some(l) = msaved.pop() {
                            local = l;
                        }
                    }
                }
                // observation after every own operation
                let r0 = ticket.fetch_add(1, Ordering::SeqCst);
                let seen = te::is_enabled();
                let r1 = ticket.fetch_add(1, Ordering::SeqCst);
                match local {
                    Local::On | Local::Off => {
                        // isolation: with an override set, concurrent operations of other threads
                        // must not be visible
                        if seen != (local == Local::On) {
                            errs.push(format!("thread {t} op #{i} {op:?}: own override is {local:?} but is_enabled() = {seen}"));
                        }
                    }
                    Local::Inherit => evs.push(Ev { thread: t, op: GOp::Read(seen), t0: r0, t1: r1 }),
                }
            }
            (evs, errs)
        }));
    }
    let mut all: Vec<Ev> = Vec::new();
    let mut ok = true;
    for h in handles {
        let (evs, errs) = h.join().expect("stress thread");
        all.extend(evs);
        for e in errs {
            ok = false;
            c.violation(
                "override-changed-by-other-thread",
                "free-running",
                format!("round {round} plans {plans:?}: {e}"),
                obj().set("round", round).set("plans", format!("{plans:?}")),
            );
        }
    }
    // final observation from the controller thread (no override): the value every linearization
    // must end with
    drop(te::local_take());
    let fin = te::is_enabled();
    let tmax = all.iter().map(|e| e.t1).max().unwrap_or(0) + 10;
    all.push(Ev { thread: usize::MAX, op: GOp::Read(fin), t0: tmax, t1: tmax + 1 });
    c.add("free-running-global-events", all.len() as u64);
    if all.len() <= 14 {
        c.count("linearizability-checks");
        if !linearizable(&all, init) {
            ok = false;
            let mut sorted = all.clone();
            sorted.sort_by_key(|e| e.t0);
            c.violation(
                "global-flag-not-linearizable",
                "free-running",
                format!("round {round}: history {sorted:?} of the global flag (initially {init}) has no linearization"),
                obj().set("round", round).set("history", format!("{sorted:?}")),
            );
        }
    } else {
        c.count("linearizability-skipped-too-long");
    }
    // leave the process in the initial state
    te::enable();
    drop(te::local_take());
    ok
}

struct Args {
    cmd: String,
    tier: String,
    seed: u64,
    shard: u64,
    nshards: u64,
    out: Option<String>,
    journal: Option<String>,
    small: bool,
    rest: Vec<String>,
    replay: Option<String>,
}

fn main() {
    let mut a = Args { cmd: String::new(), tier: "quick".into(), seed: 1, shard: 0, nshards: 1, out: None, journal: None, small: false, rest: vec![], replay: None };
    let mut it = std::env::args().skip(1);
    a.cmd = it.next().unwrap_or_default();
    while let Some(x) = it.next() {
        match x.as_str() {
            "--tier" => a.tier = it.next().unwrap(),
            "--seed" => a.seed = it.next().unwrap().parse().unwrap(),
            "--shard" => a.shard = it.next().unwrap().parse().unwrap(),
            "--nshards" => a.nshards = it.next().unwrap().parse().unwrap(),
            "--out" => a.out = it.next(),
            "--journal" => a.journal = it.next(),
            "--scale" => {
                it.next();
            }
            "--small" => a.small = true,
            "--replay" => a.replay = it.next(),
            _ => a.rest.push(x),
        }
    }
    if a.cmd == "merge-hashes" {
        println!("{}", report::merge_hash_files(&a.rest));
        return;
    }
    if a.cmd == "noop" {
        return;
    }
    if a.cmd != "C20" {
        eprintln!("unknown command {:?}", a.cmd);
        std::process::exit(2);
    }
    let mut c = Collector::new("C20", a.journal.as_deref());
    install_subscriber();
    c.eval();
    c.count("token-send-probe");
    if SendProbe::<te::LocalEnableState>(std::marker::PhantomData).transferable() {
        // demonstrate it: thread A saves its override, thread B restores it
        te::local_disable();
        let token = te::local_take();
        let moved = SendProbe::<te::LocalEnableState>(std::marker::PhantomData);
        let _ = moved;
        c.violation(
            "override-changed-by-other-thread",
            "token-is-Send",
            "LocalEnableState is Send: a saved override can be moved to another thread and restored there, planting one thread's override on another".into(),
            obj().set("check", "LocalEnableState: !Send"),
        );
        te::restore(token);
        drop(te::local_take());
    }
    if let Some(rp) = &a.replay {
        let text = std::fs::read_to_string(rp).expect("read replay");
        let j = refmodel::json::J::parse(&text).expect("parse replay");
        let r = j.get("replay").cloned().unwrap_or(refmodel::json::J::Null);
        let threads = r.get("threads").and_then(|x| x.as_u64()).unwrap_or(2) as usize;
        let sched: Vec<(usize, Op)> = r
            .get("schedule")
            .and_then(|x| x.as_arr())
            .map(|v| {
                v.iter()
                    .filter_map(|s| {
                        let s = s.as_str()?;
                        let (o, t) = s.split_once('@')?;
                        let op = OPS.iter().copied().find(|x| format!("{x:?}") == o)?;
                        Some((t.parse().ok()?, op))
                    })
                    .collect()
            })
            .unwrap_or_default();
        if sched.is_empty() {
            println!("free-running finding (not deterministic); recorded detail:\n{}", j.get("detail").and_then(|d| d.as_str()).unwrap_or(""));
            // re-run the stress for a while
            let mut rng = Rng::new(1);
            for r in 0..20000 {
                if !free_round(&mut c, &mut rng, 2, 3, r) {
                    break;
                }
            }
        } else {
            let ts = Turnstile::new(threads);
            let mut s = Default::default();
            let mut t = Default::default();
            if let Err(e) = ts.run(&sched, &mut s, &mut t) {
                report_turnstile(&mut c, &sched, e, threads);
            }
        }
        for v in &c.violations {
            println!("VIOLATION property=C20 replay={rp}\n  {}/{}: {}", v.kind, v.signature, v.detail);
        }
        println!("replay: {} violation(s)", c.violation_total);
        std::process::exit(if c.violation_total > 0 { 1 } else { 0 });
    }
    let thorough = a.tier == "thorough";
    if a.small {
        // Miri / TSan workload: a few hundred turnstile schedules and free-running rounds
        turnstile_exhaustive(&mut c, 2, 2, a.shard, a.nshards);
        turnstile_seeded(&mut c, a.seed, a.shard, 2, 24);
        if a.shard == 0 {
            sparse_observation(&mut c, 3, &[]);
        }
        same_setter_race(&mut c, 10);
        let mut rng = Rng::new(mix3(a.seed, a.shard, 0xF4EE));
        for r in 0..(if thorough { 60 } else { 16 }) {
            if !free_round(&mut c, &mut rng, 2 + (r % 2) as usize, 3, r) {
                break;
            }
        }
    } else {
        if a.shard == 0 {
            EVENTS_EVERY_STEP.store(true, Ordering::Relaxed);
            turnstile_graph_cover(&mut c, 2);
            turnstile_graph_cover(&mut c, 3);
            EVENTS_EVERY_STEP.store(false, Ordering::Relaxed);
        }
        turnstile_exhaustive(&mut c, 2, if thorough { 5 } else { 4 }, a.shard, a.nshards);
        turnstile_exhaustive(&mut c, 3, if thorough { 4 } else { 3 }, a.shard, a.nshards);
        turnstile_seeded(&mut c, a.seed, a.shard, if thorough { 400 } else { 40 }, 200);
        if a.shard == 0 {
            sparse_observation(&mut c, if thorough { 2100 } else { 520 }, &[767, 768, 769, 1023, 1024, 1025, 4095, 4096, 4097, 65535, 65536, 65537]);
        }
        same_setter_race(&mut c, if thorough { 40_000 } else { 2_500 });
        let mut rng = Rng::new(mix3(a.seed, a.shard, 0xF4EE));
        let rounds = if thorough { 400_000 } else { 30_000 };
        for r in 0..rounds {
            let threads = 2 + (r % 3) as usize;
            let per = if threads == 2 { 3 } else { 2 };
            c.eval();
            if r % 512 == 0 {
                c.journal(&format!("free-running round {r}"));
            }
            if !free_round(&mut c, &mut rng, threads, per, r) {
                break;
            }
            c.count("free-running-rounds");
        }
    }
    c.add("event-delivery-probes", EVENT_PROBES.load(Ordering::Relaxed));
    let text = c.to_json().dump();
    match &a.out {
        Some(p) => {
            std::fs::write(p, &text).expect("write result");
            c.write_hashes(&format!("{p}.hashes"));
        }
        None => println!("{text}"),
    }
}
