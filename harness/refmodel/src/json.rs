//! Minimal JSON value + writer + reader (the harness may not fetch serde).

use std::collections::BTreeMap;
use std::fmt::Write as _;

#[derive(Clone, Debug, PartialEq)]
pub enum J {
    Null,
    Bool(bool),
    Int(i64),
    UInt(u64),
    Num(f64),
    Str(String),
    Arr(Vec<J>),
    Obj(BTreeMap<String, J>),
}

impl From<bool> for J { fn from(x: bool) -> J { J::Bool(x) } }
impl From<i64> for J { fn from(x: i64) -> J { J::Int(x) } }
impl From<i32> for J { fn from(x: i32) -> J { J::Int(x as i64) } }
impl From<u64> for J { fn from(x: u64) -> J { J::UInt(x) } }
impl From<u32> for J { fn from(x: u32) -> J { J::UInt(x as u64) } }
impl From<usize> for J { fn from(x: usize) -> J { J::UInt(x as u64) } }
impl From<f64> for J { fn from(x: f64) -> J { J::Num(x) } }
impl From<&str> for J { fn from(x: &str) -> J { J::Str(x.to_string()) } }
impl From<String> for J { fn from(x: String) -> J { J::Str(x) } }
impl From<&String> for J { fn from(x: &String) -> J { J::Str(x.clone()) } }
impl<T: Into<J>> From<Vec<T>> for J { fn from(x: Vec<T>) -> J { J::Arr(x.into_iter().map(Into::into).collect()) } }
impl<T: Into<J>> From<Option<T>> for J { fn from(x: Option<T>) -> J { match x { Some(v) => v.into(), None => J::Null } } }

pub fn obj() -> J {
    J::Obj(BTreeMap::new())
}

impl J {
    pub fn set(mut self, k: &str, v: impl Into<J>) -> J {
        if let J::Obj(m) = &mut self {
            m.insert(k.to_string(), v.into());
        }
        self
    }
    pub fn put(&mut self, k: &str, v: impl Into<J>) {
        if let J::Obj(m) = self {
            m.insert(k.to_string(), v.into());
        }
    }
    pub fn get(&self, k: &str) -> Option<&J> {
        match self {
            J::Obj(m) => m.get(k),
            _ => None,
        }
    }
    pub fn as_str(&self) -> Option<&str> {
        match self { J::Str(s) => Some(s), _ => None }
    }
    pub fn as_u64(&self) -> Option<u64> {
        match self {
            J::UInt(x) => Some(*x),
            J::Int(x) if *x >= 0 => Some(*x as u64),
            J::Num(x) if *x >= 0.0 => Some(*x as u64),
            _ => None,
        }
    }
    pub fn as_i64(&self) -> Option<i64> {
        match self {
            J::UInt(x) => Some(*x as i64),
            J::Int(x) => Some(*x),
            J::Num(x) => Some(*x as i64),
            _ => None,
        }
    }
    pub fn as_arr(&self) -> Option<&Vec<J>> {
        match self { J::Arr(a) => Some(a), _ => None }
    }
    pub fn as_bool(&self) -> Option<bool> {
        match self { J::Bool(b) => Some(*b), _ => None }
    }

    pub fn write(&self, out: &mut String) {
        match self {
            J::Null => out.push_str("null"),
            J::Bool(b) => out.push_str(if *b { "true" } else { "false" }),
            J::Int(x) => write!(out, "{x}").unwrap(),
            J::UInt(x) => write!(out, "{x}").unwrap(),
            J::Num(x) => {
                if x.is_finite() { write!(out, "{x}").unwrap() } else { out.push_str("null") }
            }
            J::Str(s) => write_str(s, out),
            J::Arr(a) => {
                out.push('[');
                for (i, x) in a.iter().enumerate() {
                    if i > 0 { out.push(','); }
                    x.write(out);
                }
                out.push(']');
            }
            J::Obj(m) => {
                out.push('{');
                for (i, (k, v)) in m.iter().enumerate() {
                    if i > 0 { out.push(','); }
                    write_str(k, out);
                    out.push(':');
                    v.write(out);
                }
                out.push('}');
            }
        }
    }
    pub fn dump(&self) -> String {
        let mut s = String::new();
        self.write(&mut s);
        s
    }

    pub fn parse(s: &str) -> Result<J, String> {
        let b = s.as_bytes();
        let mut i = 0;
        let v = parse_value(b, &mut i)?;
        skip_ws(b, &mut i);
        if i != b.len() {
            return Err(format!("trailing data at {i}"));
        }
        Ok(v)
    }
}

fn write_str(s: &str, out: &mut String) {
    out.push('"');
    for c in s.chars() {
        match c {
            '"' => out.push_str("\\\""),
            '\\' => out.push_str("\\\\"),
            '\n' => out.push_str("\\n"),
            '\r' => out.push_str("\\r"),
            '\t' => out.push_str("\\t"),
            c if (c as u32) < 0x20 => write!(out, "\\u{:04x}", c as u32).unwrap(),
            c => out.push(c),
        }
    }
    out.push('"');
}

fn skip_ws(b: &[u8], i: &mut usize) {
    while *i < b.len() && matches!(b[*i], b' ' | b'\n' | b'\r' | b'\t') {
        *i += 1;
    }
}

fn parse_value(b: &[u8], i: &mut usize) -> Result<J, String> {
    skip_ws(b, i);
    if *i >= b.len() {
        return Err("eof".into());
    }
    match b[*i] {
        b'{' => {
            *i += 1;
            let mut m = BTreeMap::new();
            skip_ws(b, i);
            if *i < b.len() && b[*i] == b'}' {
                *i += 1;
                return Ok(J::Obj(m));
            }
            loop {
                skip_ws(b, i);
                let k = match parse_value(b, i)? {
                    J::Str(s) => s,
                    _ => return Err("key".into()),
                };
                skip_ws(b, i);
                if *i >= b.len() || b[*i] != b':' {
                    return Err("colon".into());
                }
                *i += 1;
                let v = parse_value(b, i)?;
                m.insert(k, v);
                skip_ws(b, i);
                match b.get(*i) {
                    Some(b',') => *i += 1,
                    Some(b'}') => {
                        *i += 1;
                        return Ok(J::Obj(m));
                    }
                    _ => return Err("obj".into()),
                }
            }
        }
        b'[' => {
            *i += 1;
            let mut a = Vec::new();
            skip_ws(b, i);
            if *i < b.len() && b[*i] == b']' {
                *i += 1;
                return Ok(J::Arr(a));
            }
            loop {
                a.push(parse_value(b, i)?);
                skip_ws(b, i);
                match b.get(*i) {
                    Some(b',') => *i += 1,
                    Some(b']') => {
                        *i += 1;
                        return Ok(J::Arr(a));
                    }
                    _ => return Err("arr".into()),
                }
            }
        }
        b'"' => {
            *i += 1;
            let mut out: Vec<u8> = Vec::new();
            while *i < b.len() {
                match b[*i] {
                    b'"' => {
                        *i += 1;
                        return String::from_utf8(out).map(J::Str).map_err(|e| e.to_string());
                    }
                    b'\\' => {
                        *i += 1;
                        match b.get(*i) {
                            Some(b'n') => out.push(b'\n'),
                            Some(b'r') => out.push(b'\r'),
                            Some(b't') => out.push(b'\t'),
                            Some(b'b') => out.push(8),
                            Some(b'f') => out.push(12),
                            Some(b'u') => {
                                let h = std::str::from_utf8(&b[*i + 1..*i + 5]).map_err(|e| e.to_string())?;
                                let cp = u32::from_str_radix(h, 16).map_err(|e| e.to_string())?;
                                let ch = char::from_u32(cp).unwrap_or('?');
                                let mut buf = [0u8; 4];
                                out.extend_from_slice(ch.encode_utf8(&mut buf).as_bytes());
                                *i += 4;
                            }
                            Some(c) => out.push(*c),
                            None => return Err("esc".into()),
                        }
                        *i += 1;
                    }
                    c => {
                        out.push(c);
                        *i += 1;
                    }
                }
            }
            Err("unterminated string".into())
        }
        b't' if b[*i..].starts_with(b"true") => { *i += 4; Ok(J::Bool(true)) }
        b'f' if b[*i..].starts_with(b"false") => { *i += 5; Ok(J::Bool(false)) }
        b'n' if b[*i..].starts_with(b"null") => { *i += 4; Ok(J::Null) }
        _ => {
            let st = *i;
            while *i < b.len() && matches!(b[*i], b'-' | b'+' | b'.' | b'e' | b'E' | b'0'..=b'9') {
                *i += 1;
            }
            let t = std::str::from_utf8(&b[st..*i]).map_err(|e| e.to_string())?;
            if let Ok(x) = t.parse::<u64>() {
                Ok(J::UInt(x))
            } else if let Ok(x) = t.parse::<i64>() {
                Ok(J::Int(x))
            } else {
                t.parse::<f64>().map(J::Num).map_err(|e| format!("{e}: {t:?}"))
            }
        }
    }
}
