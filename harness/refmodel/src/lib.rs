//! Independent, deliberately naive reference model of chess.
//!
//! Shares no code and no tables with /repo.  8x8 mailbox, rays walked square by
//! square over (file, rank) integers, legality = make the move on a copy and test
//! whether the mover's king is attacked.  Squares are numbered a1 = 0, b1 = 1, ...,
//! h8 = 63 (file = sq % 8, rank = sq / 8).
//!
//! Conventions shared with the code under test (they are part of the properties'
//! statements, not implementation details):
//!  * the en-passant marker is set after *every* double pawn step (C02);
//!  * the full-move counter is a plain counter incremented after Black moves
//!    (the standard position starts at 0 in this code base);
//!  * position identity = placement, side to move, castling rights, e.p. file.

pub mod json;
pub mod report;
pub mod rng;
pub mod tags;
pub mod textobs;
pub mod workload;

use std::fmt::Write as _;

#[derive(Clone, Copy, PartialEq, Eq, Hash, Debug, PartialOrd, Ord)]
pub enum Col {
    W,
    B,
}

impl Col {
    pub fn flip(self) -> Col {
        match self {
            Col::W => Col::B,
            Col::B => Col::W,
        }
    }
    pub fn idx(self) -> usize {
        self as usize
    }
    /// direction of pawn advance in ranks
    pub fn fwd(self) -> i32 {
        match self {
            Col::W => 1,
            Col::B => -1,
        }
    }
    pub fn home_rank(self) -> i32 {
        match self {
            Col::W => 0,
            Col::B => 7,
        }
    }
    pub fn pawn_start_rank(self) -> i32 {
        match self {
            Col::W => 1,
            Col::B => 6,
        }
    }
    pub fn promo_rank(self) -> i32 {
        match self {
            Col::W => 7,
            Col::B => 0,
        }
    }
}

#[derive(Clone, Copy, PartialEq, Eq, Hash, Debug, PartialOrd, Ord)]
pub enum Kind {
    P,
    N,
    B,
    R,
    Q,
    K,
}

pub const KINDS: [Kind; 6] = [Kind::P, Kind::N, Kind::B, Kind::R, Kind::Q, Kind::K];
pub const PROMOS: [Kind; 4] = [Kind::Q, Kind::R, Kind::B, Kind::N];

impl Kind {
    pub fn idx(self) -> usize {
        self as usize
    }
    pub fn letter(self, c: Col) -> char {
        let l = match self {
            Kind::P => 'p',
            Kind::N => 'n',
            Kind::B => 'b',
            Kind::R => 'r',
            Kind::Q => 'q',
            Kind::K => 'k',
        };
        if c == Col::W {
            l.to_ascii_uppercase()
        } else {
            l
        }
    }
}

pub type Sq = u8;

#[inline]
pub fn sq(file: i32, rank: i32) -> Sq {
    debug_assert!((0..8).contains(&file) && (0..8).contains(&rank));
    (rank * 8 + file) as Sq
}
#[inline]
pub fn file_of(s: Sq) -> i32 {
    (s % 8) as i32
}
#[inline]
pub fn rank_of(s: Sq) -> i32 {
    (s / 8) as i32
}
#[inline]
pub fn on_board(file: i32, rank: i32) -> bool {
    (0..8).contains(&file) && (0..8).contains(&rank)
}
pub fn sq_name(s: Sq) -> String {
    format!("{}{}", (b'a' + (s % 8)) as char, (b'1' + (s / 8)) as char)
}
pub fn parse_sq(s: &str) -> Option<Sq> {
    let b = s.as_bytes();
    if b.len() != 2 {
        return None;
    }
    let f = b[0].wrapping_sub(b'a');
    let r = b[1].wrapping_sub(b'1');
    if f < 8 && r < 8 {
        Some(r * 8 + f)
    } else {
        None
    }
}

#[derive(Clone, Copy, PartialEq, Eq, Hash, Debug, PartialOrd, Ord)]
pub struct Mv {
    pub from: Sq,
    pub to: Sq,
    pub promo: Option<Kind>,
}

impl Mv {
    pub fn new(from: Sq, to: Sq) -> Mv {
        Mv { from, to, promo: None }
    }
    pub fn uci(&self) -> String {
        let mut s = format!("{}{}", sq_name(self.from), sq_name(self.to));
        if let Some(p) = self.promo {
            s.push(p.letter(Col::B));
        }
        s
    }
    pub fn parse_uci(s: &str) -> Option<Mv> {
        if s.len() != 4 && s.len() != 5 {
            return None;
        }
        let from = parse_sq(&s[0..2])?;
        let to = parse_sq(&s[2..4])?;
        let promo = if s.len() == 5 {
            Some(match s.as_bytes()[4] {
                b'q' => Kind::Q,
                b'r' => Kind::R,
                b'b' => Kind::B,
                b'n' => Kind::N,
                _ => return None,
            })
        } else {
            None
        };
        Some(Mv { from, to, promo })
    }
}

pub const WK: usize = 0;
pub const WQ: usize = 1;
pub const BK: usize = 2;
pub const BQ: usize = 3;

#[derive(Clone, PartialEq, Eq, Hash, Debug)]
pub struct Position {
    pub board: [Option<(Col, Kind)>; 64],
    pub turn: Col,
    /// WK, WQ, BK, BQ
    pub castle: [bool; 4],
    /// file of the pawn that just made a double step
    pub ep: Option<u8>,
    pub half: u32,
    pub full: u32,
}

/// What makes two positions "the same position" for repetition purposes.
#[derive(Clone, PartialEq, Eq, Hash, Debug)]
pub struct Identity {
    pub board: [Option<(Col, Kind)>; 64],
    pub turn: Col,
    pub castle: [bool; 4],
    pub ep: Option<u8>,
}

#[derive(Clone, Copy, PartialEq, Eq, Debug)]
pub enum Status {
    Checkmate,
    /// no legal move and not in check, or half-move clock >= 100
    Draw,
    Check,
    Running,
}

const KNIGHT_D: [(i32, i32); 8] = [(1, 2), (2, 1), (2, -1), (1, -2), (-1, -2), (-2, -1), (-2, 1), (-1, 2)];
const KING_D: [(i32, i32); 8] = [(1, 0), (1, 1), (0, 1), (-1, 1), (-1, 0), (-1, -1), (0, -1), (1, -1)];
const ROOK_D: [(i32, i32); 4] = [(1, 0), (0, 1), (-1, 0), (0, -1)];
const BISHOP_D: [(i32, i32); 4] = [(1, 1), (-1, 1), (-1, -1), (1, -1)];

impl Position {
    pub fn empty() -> Position {
        Position { board: [None; 64], turn: Col::W, castle: [false; 4], ep: None, half: 0, full: 0 }
    }

    pub fn standard() -> Position {
        let mut p = Position::empty();
        let back = [Kind::R, Kind::N, Kind::B, Kind::Q, Kind::K, Kind::B, Kind::N, Kind::R];
        for f in 0..8 {
            p.board[sq(f, 0) as usize] = Some((Col::W, back[f as usize]));
            p.board[sq(f, 1) as usize] = Some((Col::W, Kind::P));
            p.board[sq(f, 6) as usize] = Some((Col::B, Kind::P));
            p.board[sq(f, 7) as usize] = Some((Col::B, back[f as usize]));
        }
        p.castle = [true; 4];
        p
    }

    pub fn at(&self, s: Sq) -> Option<(Col, Kind)> {
        self.board[s as usize]
    }

    pub fn identity(&self) -> Identity {
        Identity { board: self.board, turn: self.turn, castle: self.castle, ep: self.ep }
    }

    pub fn king_sq(&self, c: Col) -> Option<Sq> {
        (0..64u8).find(|&s| self.board[s as usize] == Some((c, Kind::K)))
    }

    pub fn count(&self, c: Col) -> usize {
        self.board.iter().filter(|x| matches!(x, Some((cc, _)) if *cc == c)).count()
    }

    pub fn count_kind(&self, c: Col, k: Kind) -> usize {
        self.board.iter().filter(|x| **x == Some((c, k))).count()
    }

    /// Is square `target` attacked by any piece of colour `by`?
    pub fn attacked(&self, target: Sq, by: Col) -> bool {
        !self.attackers(target, by).is_empty()
    }

    /// All squares holding a piece of colour `by` that attacks `target`.
    pub fn attackers(&self, target: Sq, by: Col) -> Vec<Sq> {
        let mut out = Vec::new();
        let tf = file_of(target);
        let tr = rank_of(target);
        // pawns: a pawn of colour `by` on (tf±1, tr - fwd) attacks target
        for df in [-1, 1] {
            let f = tf + df;
            let r = tr - by.fwd();
            if on_board(f, r) && self.board[sq(f, r) as usize] == Some((by, Kind::P)) {
                out.push(sq(f, r));
            }
        }
        for (df, dr) in KNIGHT_D {
            let (f, r) = (tf + df, tr + dr);
            if on_board(f, r) && self.board[sq(f, r) as usize] == Some((by, Kind::N)) {
                out.push(sq(f, r));
            }
        }
        for (df, dr) in KING_D {
            let (f, r) = (tf + df, tr + dr);
            if on_board(f, r) && self.board[sq(f, r) as usize] == Some((by, Kind::K)) {
                out.push(sq(f, r));
            }
        }
        for (dirs, k1) in [(&ROOK_D, Kind::R), (&BISHOP_D, Kind::B)] {
            for &(df, dr) in dirs.iter() {
                let (mut f, mut r) = (tf + df, tr + dr);
                while on_board(f, r) {
                    if let Some((c, k)) = self.board[sq(f, r) as usize] {
                        if c == by && (k == k1 || k == Kind::Q) {
                            out.push(sq(f, r));
                        }
                        break;
                    }
                    f += df;
                    r += dr;
                }
            }
        }
        out
    }

    pub fn in_check(&self) -> bool {
        match self.king_sq(self.turn) {
            Some(k) => self.attacked(k, self.turn.flip()),
            None => false,
        }
    }

    pub fn checkers(&self) -> Vec<Sq> {
        match self.king_sq(self.turn) {
            Some(k) => self.attackers(k, self.turn.flip()),
            None => vec![],
        }
    }

    /// The e.p. target square (the square the capturing pawn lands on), if the marker is set.
    pub fn ep_target(&self) -> Option<Sq> {
        self.ep.map(|f| {
            // the pawn that double-stepped belongs to the side NOT to move
            let victim_col = self.turn.flip();
            let r = victim_col.pawn_start_rank() + victim_col.fwd();
            sq(f as i32, r)
        })
    }

    /// Square of the pawn that would be captured en passant.
    pub fn ep_victim(&self) -> Option<Sq> {
        self.ep.map(|f| {
            let victim_col = self.turn.flip();
            let r = victim_col.pawn_start_rank() + 2 * victim_col.fwd();
            sq(f as i32, r)
        })
    }

    fn push_pawn_move(&self, out: &mut Vec<Mv>, from: Sq, to: Sq) {
        if rank_of(to) == self.turn.promo_rank() {
            for p in PROMOS {
                out.push(Mv { from, to, promo: Some(p) });
            }
        } else {
            out.push(Mv { from, to, promo: None });
        }
    }

    /// Pseudo-legal moves: obey piece movement, occupancy, castling-path emptiness and rights,
    /// but may leave the own king attacked.  Castling's "not in / through check" is tested here
    /// because it is about squares other than the final king square.
    pub fn pseudo_moves(&self) -> Vec<Mv> {
        let mut out = Vec::with_capacity(64);
        let me = self.turn;
        let opp = me.flip();
        for s in 0..64u8 {
            let Some((c, k)) = self.board[s as usize] else { continue };
            if c != me {
                continue;
            }
            let (f0, r0) = (file_of(s), rank_of(s));
            match k {
                Kind::P => {
                    let r1 = r0 + me.fwd();
                    if on_board(f0, r1) {
                        if self.board[sq(f0, r1) as usize].is_none() {
                            self.push_pawn_move(&mut out, s, sq(f0, r1));
                            let r2 = r1 + me.fwd();
                            if r0 == me.pawn_start_rank()
                                && on_board(f0, r2)
                                && self.board[sq(f0, r2) as usize].is_none()
                            {
                                out.push(Mv::new(s, sq(f0, r2)));
                            }
                        }
                        for df in [-1, 1] {
                            let f1 = f0 + df;
                            if !on_board(f1, r1) {
                                continue;
                            }
                            let t = sq(f1, r1);
                            match self.board[t as usize] {
                                Some((cc, _)) if cc == opp => self.push_pawn_move(&mut out, s, t),
                                None => {
                                    if Some(t) == self.ep_target()
                                        && self.ep_victim().map(|v| self.board[v as usize])
                                            == Some(Some((opp, Kind::P)))
                                    {
                                        out.push(Mv::new(s, t));
                                    }
                                }
                                _ => {}
                            }
                        }
                    }
                }
                Kind::N | Kind::K => {
                    let d = if k == Kind::N { &KNIGHT_D } else { &KING_D };
                    for &(df, dr) in d.iter() {
                        let (f, r) = (f0 + df, r0 + dr);
                        if !on_board(f, r) {
                            continue;
                        }
                        match self.board[sq(f, r) as usize] {
                            Some((cc, _)) if cc == me => {}
                            _ => out.push(Mv::new(s, sq(f, r))),
                        }
                    }
                    if k == Kind::K {
                        self.castling_moves(&mut out, s);
                    }
                }
                Kind::B | Kind::R | Kind::Q => {
                    let mut dirs: Vec<(i32, i32)> = Vec::new();
                    if k != Kind::B {
                        dirs.extend_from_slice(&ROOK_D);
                    }
                    if k != Kind::R {
                        dirs.extend_from_slice(&BISHOP_D);
                    }
                    for (df, dr) in dirs {
                        let (mut f, mut r) = (f0 + df, r0 + dr);
                        while on_board(f, r) {
                            match self.board[sq(f, r) as usize] {
                                None => out.push(Mv::new(s, sq(f, r))),
                                Some((cc, _)) => {
                                    if cc != me {
                                        out.push(Mv::new(s, sq(f, r)));
                                    }
                                    break;
                                }
                            }
                            f += df;
                            r += dr;
                        }
                    }
                }
            }
        }
        out
    }

    fn castling_moves(&self, out: &mut Vec<Mv>, king: Sq) {
        let me = self.turn;
        let opp = me.flip();
        let hr = me.home_rank();
        if king != sq(4, hr) {
            return;
        }
        let (ks, qs) = if me == Col::W { (WK, WQ) } else { (BK, BQ) };
        // king side: rook on h, f and g empty, e f g not attacked
        if self.castle[ks]
            && self.board[sq(7, hr) as usize] == Some((me, Kind::R))
            && self.board[sq(5, hr) as usize].is_none()
            && self.board[sq(6, hr) as usize].is_none()
            && !self.attacked(sq(4, hr), opp)
            && !self.attacked(sq(5, hr), opp)
            && !self.attacked(sq(6, hr), opp)
        {
            out.push(Mv::new(king, sq(6, hr)));
        }
        // queen side: rook on a, b c d empty, e d c not attacked
        if self.castle[qs]
            && self.board[sq(0, hr) as usize] == Some((me, Kind::R))
            && self.board[sq(1, hr) as usize].is_none()
            && self.board[sq(2, hr) as usize].is_none()
            && self.board[sq(3, hr) as usize].is_none()
            && !self.attacked(sq(4, hr), opp)
            && !self.attacked(sq(3, hr), opp)
            && !self.attacked(sq(2, hr), opp)
        {
            out.push(Mv::new(king, sq(2, hr)));
        }
    }

    pub fn is_castle(&self, m: Mv) -> bool {
        matches!(self.board[m.from as usize], Some((_, Kind::K)))
            && (file_of(m.from) - file_of(m.to)).abs() == 2
    }

    pub fn is_ep_capture(&self, m: Mv) -> bool {
        matches!(self.board[m.from as usize], Some((_, Kind::P)))
            && file_of(m.from) != file_of(m.to)
            && self.board[m.to as usize].is_none()
    }

    pub fn is_capture(&self, m: Mv) -> bool {
        self.board[m.to as usize].is_some() || self.is_ep_capture(m)
    }

    pub fn is_double_step(&self, m: Mv) -> bool {
        matches!(self.board[m.from as usize], Some((_, Kind::P)))
            && (rank_of(m.from) - rank_of(m.to)).abs() == 2
    }

    /// Apply a (pseudo-)legal move; no legality check.
    pub fn apply(&self, m: Mv) -> Position {
        let mut n = self.clone();
        let me = self.turn;
        let (c, k) = self.board[m.from as usize].expect("apply: no piece on from-square");
        debug_assert_eq!(c, me);
        let captured = self.board[m.to as usize];
        let mut reset = captured.is_some() || k == Kind::P;
        n.board[m.from as usize] = None;
        if self.is_ep_capture(m) {
            let v = sq(file_of(m.to), rank_of(m.from));
            n.board[v as usize] = None;
            reset = true;
        }
        let placed = match m.promo {
            Some(p) if k == Kind::P => p,
            _ => k,
        };
        n.board[m.to as usize] = Some((me, placed));
        if self.is_castle(m) {
            let hr = rank_of(m.from);
            if file_of(m.to) == 6 {
                n.board[sq(7, hr) as usize] = None;
                n.board[sq(5, hr) as usize] = Some((me, Kind::R));
            } else {
                n.board[sq(0, hr) as usize] = None;
                n.board[sq(3, hr) as usize] = Some((me, Kind::R));
            }
        }
        // castling rights: lost when king or rook leaves home, or a home rook is captured
        for (idx, ksq, rsq) in [
            (WK, sq(4, 0), sq(7, 0)),
            (WQ, sq(4, 0), sq(0, 0)),
            (BK, sq(4, 7), sq(7, 7)),
            (BQ, sq(4, 7), sq(0, 7)),
        ] {
            if m.from == ksq || m.from == rsq || m.to == rsq || m.to == ksq {
                n.castle[idx] = false;
            }
        }
        n.ep = if self.is_double_step(m) { Some(file_of(m.from) as u8) } else { None };
        n.half = if reset { 0 } else { self.half + 1 };
        if me == Col::B {
            n.full = self.full + 1;
        }
        n.turn = me.flip();
        n
    }

    pub fn legal_moves(&self) -> Vec<Mv> {
        let me = self.turn;
        let mut out = Vec::new();
        for m in self.pseudo_moves() {
            let n = self.apply(m);
            if let Some(k) = n.king_sq(me) {
                if !n.attacked(k, me.flip()) {
                    out.push(m);
                }
            }
        }
        out
    }

    pub fn is_legal(&self, m: Mv) -> bool {
        self.legal_moves().contains(&m)
    }

    pub fn status(&self) -> Status {
        let no_moves = self.legal_moves().is_empty();
        let chk = self.in_check();
        if no_moves && chk {
            Status::Checkmate
        } else if no_moves || self.half >= 100 {
            Status::Draw
        } else if chk {
            Status::Check
        } else {
            Status::Running
        }
    }

    pub fn perft(&self, depth: u32) -> u64 {
        if depth == 0 {
            return 1;
        }
        let ms = self.legal_moves();
        if depth == 1 {
            return ms.len() as u64;
        }
        ms.iter().map(|&m| self.apply(m).perft(depth - 1)).sum()
    }

    // ------------------------------------------------------------------ text

    pub fn placement(&self) -> String {
        let mut s = String::new();
        for r in (0..8).rev() {
            let mut empty = 0;
            for f in 0..8 {
                match self.board[sq(f, r) as usize] {
                    Some((c, k)) => {
                        if empty > 0 {
                            write!(s, "{empty}").unwrap();
                            empty = 0;
                        }
                        s.push(k.letter(c));
                    }
                    None => empty += 1,
                }
            }
            if empty > 0 {
                write!(s, "{empty}").unwrap();
            }
            if r != 0 {
                s.push('/');
            }
        }
        s
    }

    pub fn rights_str(&self) -> String {
        let mut s = String::new();
        for (i, ch) in ['K', 'Q', 'k', 'q'].iter().enumerate() {
            if self.castle[i] {
                s.push(*ch);
            }
        }
        if s.is_empty() {
            s.push('-');
        }
        s
    }

    /// Canonical FEN: six fields separated by single spaces; the e.p. field names the target
    /// square whenever the marker is set.
    pub fn to_fen(&self) -> String {
        let ep = match self.ep_target() {
            Some(t) => sq_name(t),
            None => "-".to_string(),
        };
        format!(
            "{} {} {} {} {} {}",
            self.placement(),
            if self.turn == Col::W { "w" } else { "b" },
            self.rights_str(),
            ep,
            self.half,
            self.full
        )
    }

    /// Strict reader for canonical FEN (exactly what `to_fen` writes).
    pub fn from_fen(s: &str) -> Result<Position, String> {
        let parts: Vec<&str> = s.split(' ').collect();
        if parts.len() != 6 {
            return Err(format!("expected 6 fields, got {}", parts.len()));
        }
        let mut p = Position::empty();
        let ranks: Vec<&str> = parts[0].split('/').collect();
        if ranks.len() != 8 {
            return Err("expected 8 ranks".into());
        }
        for (i, rk) in ranks.iter().enumerate() {
            let r = 7 - i as i32;
            let mut f = 0i32;
            for ch in rk.chars() {
                if let Some(d) = ch.to_digit(10) {
                    if !(1..=8).contains(&d) {
                        return Err("bad digit".into());
                    }
                    f += d as i32;
                } else {
                    let c = if ch.is_ascii_uppercase() { Col::W } else { Col::B };
                    let k = match ch.to_ascii_lowercase() {
                        'p' => Kind::P,
                        'n' => Kind::N,
                        'b' => Kind::B,
                        'r' => Kind::R,
                        'q' => Kind::Q,
                        'k' => Kind::K,
                        _ => return Err(format!("bad piece {ch}")),
                    };
                    if f >= 8 {
                        return Err("rank overflow".into());
                    }
                    p.board[sq(f, r) as usize] = Some((c, k));
                    f += 1;
                }
            }
            if f != 8 {
                return Err("rank length".into());
            }
        }
        p.turn = match parts[1] {
            "w" => Col::W,
            "b" => Col::B,
            _ => return Err("bad turn".into()),
        };
        if parts[2] != "-" {
            for ch in parts[2].chars() {
                let i = match ch {
                    'K' => WK,
                    'Q' => WQ,
                    'k' => BK,
                    'q' => BQ,
                    _ => return Err("bad rights".into()),
                };
                p.castle[i] = true;
            }
        }
        if parts[3] != "-" {
            let t = parse_sq(parts[3]).ok_or("bad ep")?;
            let want = if p.turn == Col::W { 5 } else { 2 };
            if rank_of(t) != want {
                return Err("ep rank".into());
            }
            p.ep = Some(file_of(t) as u8);
        }
        p.half = parts[4].parse().map_err(|_| "bad half")?;
        p.full = parts[5].parse().map_err(|_| "bad full")?;
        Ok(p)
    }

    /// Swap colours and flip ranks.
    pub fn mirror(&self) -> Position {
        let mut n = Position::empty();
        for s in 0..64u8 {
            if let Some((c, k)) = self.board[s as usize] {
                n.board[sq(file_of(s), 7 - rank_of(s)) as usize] = Some((c.flip(), k));
            }
        }
        n.turn = self.turn.flip();
        n.castle = [self.castle[BK], self.castle[BQ], self.castle[WK], self.castle[WQ]];
        n.ep = self.ep;
        n.half = self.half;
        n.full = self.full;
        n
    }

    // ------------------------------------------------------------------ validity

    /// The acceptance conditions property C06 lists for a playable position.
    pub fn c06_ok(&self) -> Result<(), &'static str> {
        if self.count_kind(Col::W, Kind::K) != 1 || self.count_kind(Col::B, Kind::K) != 1 {
            return Err("kings");
        }
        if self.count(Col::W) > 16 || self.count(Col::B) > 16 {
            return Err("too-many-pieces");
        }
        let opp = self.turn.flip();
        if self.attacked(self.king_sq(opp).unwrap(), self.turn) {
            return Err("opponent-in-check");
        }
        for (idx, c, rf) in [(WK, Col::W, 7), (WQ, Col::W, 0), (BK, Col::B, 7), (BQ, Col::B, 0)] {
            if self.castle[idx] {
                let hr = c.home_rank();
                if self.board[sq(4, hr) as usize] != Some((c, Kind::K))
                    || self.board[sq(rf, hr) as usize] != Some((c, Kind::R))
                {
                    return Err("castle-rights");
                }
            }
        }
        if self.ep.is_some() {
            let t = self.ep_target().unwrap();
            let v = self.ep_victim().unwrap();
            if self.board[t as usize].is_some() {
                return Err("ep-target-occupied");
            }
            if self.board[v as usize] != Some((opp, Kind::P)) {
                return Err("ep-no-pawn");
            }
        }
        Ok(())
    }

    /// Stronger filter for roots used by legality-judging monitors (DESIGN Appendix A.1):
    /// a position that can arise in a game as far as local evidence goes.
    pub fn chess_root_ok(&self) -> Result<(), &'static str> {
        self.c06_ok()?;
        for f in 0..8 {
            for r in [0, 7] {
                if matches!(self.board[sq(f, r) as usize], Some((_, Kind::P))) {
                    return Err("pawn-on-back-rank");
                }
            }
        }
        let wk = self.king_sq(Col::W).unwrap();
        let bk = self.king_sq(Col::B).unwrap();
        if (file_of(wk) - file_of(bk)).abs() <= 1 && (rank_of(wk) - rank_of(bk)).abs() <= 1 {
            return Err("kings-adjacent");
        }
        let checkers = self.checkers();
        if checkers.len() > 2 {
            return Err("triple-check");
        }
        if let Some(f) = self.ep {
            let opp = self.turn.flip();
            let origin = sq(f as i32, opp.pawn_start_rank());
            if self.board[origin as usize].is_some() {
                return Err("ep-origin-occupied");
            }
            // every checker must be the double-stepped pawn itself or a slider whose line to the
            // king passes through the origin or the target square (discovered by the double step)
            let k = self.king_sq(self.turn).unwrap();
            let v = self.ep_victim().unwrap();
            let t = self.ep_target().unwrap();
            for c in &checkers {
                if *c == v {
                    continue;
                }
                let kind = self.board[*c as usize].unwrap().1;
                let slider = matches!(kind, Kind::B | Kind::R | Kind::Q);
                let through = |x: Sq| strictly_between(k, *c, x);
                if !(slider && (through(origin) || through(t))) {
                    return Err("ep-impossible-check");
                }
            }
        } else if checkers.len() == 2 {
            // a double check without e.p. marker must be a discovered check: rule out only the
            // grossly impossible combinations (two knights, two pawns, pawn+knight ...) cheaply
            let kinds: Vec<Kind> = checkers.iter().map(|c| self.board[*c as usize].unwrap().1).collect();
            let sliders = kinds.iter().filter(|k| matches!(k, Kind::B | Kind::R | Kind::Q)).count();
            if sliders == 0 {
                return Err("impossible-double-check");
            }
        }
        Ok(())
    }
}

/// Is `x` strictly between `a` and `b` on a common rank, file or diagonal?
pub fn strictly_between(a: Sq, b: Sq, x: Sq) -> bool {
    let (af, ar, bf, br) = (file_of(a), rank_of(a), file_of(b), rank_of(b));
    let (df, dr) = (bf - af, br - ar);
    if !(df == 0 || dr == 0 || df.abs() == dr.abs()) || (df == 0 && dr == 0) {
        return false;
    }
    let (sf, sr) = (df.signum(), dr.signum());
    let (mut f, mut r) = (af + sf, ar + sr);
    while (f, r) != (bf, br) {
        if sq(f, r) == x {
            return true;
        }
        f += sf;
        r += sr;
    }
    false
}

/// Squares strictly between two aligned squares (empty if not aligned).
pub fn between_squares(a: Sq, b: Sq) -> Vec<Sq> {
    (0..64u8).filter(|&x| strictly_between(a, b, x)).collect()
}

/// Are a and b on a common rank, file or diagonal (and distinct)?
pub fn aligned(a: Sq, b: Sq) -> bool {
    let (df, dr) = (file_of(b) - file_of(a), rank_of(b) - rank_of(a));
    (df, dr) != (0, 0) && (df == 0 || dr == 0 || df.abs() == dr.abs())
}

/// Published perft node counts (chessprogramming.org "Perft Results"), independent of /repo.
pub const PUBLISHED_PERFT: &[(&str, &[u64])] = &[
    ("rnbqkbnr/pppppppp/8/8/8/8/PPPPPPPP/RNBQKBNR w KQkq - 0 0", &[20, 400, 8902, 197281]),
    ("r3k2r/p1ppqpb1/bn2pnp1/3PN3/1p2P3/2N2Q1p/PPPBBPPP/R3K2R w KQkq - 0 0", &[48, 2039, 97862]),
    ("8/2p5/3p4/KP5r/1R3p1k/8/4P1P1/8 w - - 0 0", &[14, 191, 2812, 43238, 674624]),
    ("r3k2r/Pppp1ppp/1b3nbN/nP6/BBP1P3/q4N2/Pp1P2PP/R2Q1RK1 w kq - 0 0", &[6, 264, 9467, 422333]),
    ("r2q1rk1/pP1p2pp/Q4n2/bbp1p3/Np6/1B3NBn/pPPP1PPP/R3K2R b KQ - 0 0", &[6, 264, 9467, 422333]),
    ("rnbq1k1r/pp1Pbppp/2p5/8/2B5/8/PPP1NnPP/RNBQK2R w KQ - 1 7", &[44, 1486, 62379]),
    ("r4rk1/1pp1qppp/p1np1n2/2b1p1B1/2B1P1b1/P1NP1N2/1PP1QPPP/R4RK1 w - - 0 9", &[46, 2079, 89890]),
];

/// Validate the model itself against published numbers; `deep` adds one more ply where cheap.
pub fn self_test(deep: bool) -> Result<u64, String> {
    let mut nodes = 0;
    for (fen, counts) in PUBLISHED_PERFT {
        let p = Position::from_fen(fen)?;
        if p.to_fen() != *fen {
            return Err(format!("model FEN round trip failed for {fen}"));
        }
        let n = if deep { counts.len() } else { counts.len().min(3) };
        for (i, &want) in counts.iter().enumerate().take(n) {
            let got = p.perft(i as u32 + 1);
            nodes += got;
            if got != want {
                return Err(format!("model perft({}) of {fen} = {got}, published {want}", i + 1));
            }
        }
        // mirror invariance of the model itself
        let m = p.mirror();
        if m.mirror() != p || m.perft(2) != p.perft(2) {
            return Err(format!("model mirror failed for {fen}"));
        }
    }
    Ok(nodes)
}
