//! Per-worker collector: counters, tag histograms, distinct-case set, samples, violations, journal.

use crate::json::{obj, J};
use std::collections::{BTreeMap, HashSet};
use std::io::Write;

pub struct Violation {
    pub kind: String,
    pub signature: String,
    pub detail: String,
    pub replay: J,
}

pub struct Collector {
    pub prop: String,
    pub evaluations: u64,
    pub distinct: HashSet<u64>,
    pub counters: BTreeMap<String, u64>,
    pub tags: BTreeMap<String, u64>,
    pub samples: Vec<J>,
    pub sample_cap: usize,
    pub violations: Vec<Violation>,
    pub violation_total: u64,
    seen_sigs: HashSet<String>,
    journal: Option<std::fs::File>,
    journal_bytes: usize,
    pub notes: Vec<String>,
}

impl Collector {
    pub fn new(prop: &str, journal: Option<&str>) -> Collector {
        let journal = journal.map(|p| {
            std::fs::OpenOptions::new().create(true).append(true).open(p).expect("open journal")
        });
        Collector {
            prop: prop.to_string(),
            evaluations: 0,
            distinct: HashSet::new(),
            counters: BTreeMap::new(),
            tags: BTreeMap::new(),
            samples: Vec::new(),
            sample_cap: 6,
            violations: Vec::new(),
            violation_total: 0,
            seen_sigs: HashSet::new(),
            journal,
            journal_bytes: 0,
            notes: Vec::new(),
        }
    }

    /// Write-ahead record of the case about to be executed, so that an abort (ub_checks, ASan,
    /// allocation failure) can be attributed by the supervisor.
    pub fn journal(&mut self, case: &str) {
        if let Some(f) = &mut self.journal {
            // only the last record is ever read (by the supervisor, after a crash): keep the file
            // bounded by starting over once it has grown past 256 KiB (it is opened in append mode,
            // so the next record lands at the new end)
            if self.journal_bytes > 256 * 1024 {
                let _ = f.set_len(0);
                self.journal_bytes = 0;
            }
            let _ = writeln!(f, "{case}");
            let _ = f.flush();
            self.journal_bytes += case.len() + 1;
        }
    }

    pub fn count(&mut self, name: &str) {
        *self.counters.entry(name.to_string()).or_insert(0) += 1;
    }
    pub fn add(&mut self, name: &str, n: u64) {
        *self.counters.entry(name.to_string()).or_insert(0) += n;
    }
    pub fn max(&mut self, name: &str, n: u64) {
        let e = self.counters.entry(name.to_string()).or_insert(0);
        if n > *e {
            *e = n;
        }
    }
    pub fn tag(&mut self, name: &str) {
        *self.tags.entry(name.to_string()).or_insert(0) += 1;
    }
    pub fn eval(&mut self) {
        self.evaluations += 1;
    }
    /// Register a distinct non-trivial case by hash.
    pub fn distinct(&mut self, h: u64) {
        // bound memory: beyond 8M entries keep counting only what fits (conservative under-count)
        if self.distinct.len() < 8_000_000 {
            self.distinct.insert(h);
        }
    }
    pub fn sample(&mut self, j: J) {
        if self.samples.len() < self.sample_cap {
            self.samples.push(j);
        }
    }
    pub fn want_sample(&self) -> bool {
        self.samples.len() < self.sample_cap
    }

    pub fn violation(&mut self, kind: &str, signature: &str, detail: String, replay: J) {
        self.violation_total += 1;
        *self.counters.entry(format!("violation:{kind}")).or_insert(0) += 1;
        // keep the first few per signature, and a global cap
        let key = format!("{kind}/{signature}");
        let n = self.violations.iter().filter(|v| format!("{}/{}", v.kind, v.signature) == key).count();
        if n < 3 && self.violations.len() < 60 {
            self.seen_sigs.insert(key);
            self.violations.push(Violation {
                kind: kind.to_string(),
                signature: signature.to_string(),
                detail,
                replay,
            });
        }
    }

    pub fn to_json(&self) -> J {
        let mut counters = obj();
        for (k, v) in &self.counters {
            counters.put(k, *v);
        }
        let mut tags = obj();
        for (k, v) in &self.tags {
            tags.put(k, *v);
        }
        let viol: Vec<J> = self
            .violations
            .iter()
            .map(|v| {
                obj()
                    .set("kind", v.kind.as_str())
                    .set("signature", v.signature.as_str())
                    .set("detail", v.detail.as_str())
                    .set("replay", v.replay.clone())
            })
            .collect();
        obj()
            .set("property", self.prop.as_str())
            .set("evaluations", self.evaluations)
            .set("distinct", self.distinct.len())
            .set("counters", counters)
            .set("tags", tags)
            .set("samples", J::Arr(self.samples.clone()))
            .set("violations", J::Arr(viol))
            .set("violation_total", self.violation_total)
            .set("notes", self.notes.clone())
    }

    /// Distinct-case hashes are written as a sorted binary file (u64 LE) so the supervisor can
    /// take the exact union across shards (`mon-core merge-hashes`).
    pub fn write_hashes(&self, path: &str) {
        let mut hashes: Vec<u64> = self.distinct.iter().copied().collect();
        hashes.sort_unstable();
        let mut buf = Vec::with_capacity(hashes.len() * 8);
        for h in hashes {
            buf.extend_from_slice(&h.to_le_bytes());
        }
        let _ = std::fs::write(path, buf);
    }
}

/// Union size of several sorted hash files.
pub fn merge_hash_files(paths: &[String]) -> u64 {
    let mut all: Vec<u64> = Vec::new();
    for p in paths {
        if let Ok(b) = std::fs::read(p) {
            for ch in b.chunks_exact(8) {
                all.push(u64::from_le_bytes(ch.try_into().unwrap()));
            }
        }
    }
    all.sort_unstable();
    all.dedup();
    all.len() as u64
}

