//! Seeded PRNG (splitmix64 -> xoshiro256**), no external crates.

#[derive(Clone, Debug)]
pub struct Rng {
    s: [u64; 4],
}

pub fn splitmix(x: &mut u64) -> u64 {
    *x = x.wrapping_add(0x9E3779B97F4A7C15);
    let mut z = *x;
    z = (z ^ (z >> 30)).wrapping_mul(0xBF58476D1CE4E5B9);
    z = (z ^ (z >> 27)).wrapping_mul(0x94D049BB133111EB);
    z ^ (z >> 31)
}

/// Derive an independent stream id from (seed, stream, index).
pub fn mix3(a: u64, b: u64, c: u64) -> u64 {
    let mut x = a ^ 0xD1B54A32D192ED03;
    let mut h = splitmix(&mut x);
    x ^= b.wrapping_mul(0x9E3779B97F4A7C15);
    h ^= splitmix(&mut x);
    x ^= c.wrapping_mul(0xC2B2AE3D27D4EB4F);
    h ^= splitmix(&mut x);
    h
}

impl Rng {
    pub fn new(seed: u64) -> Rng {
        let mut x = seed;
        let s = [splitmix(&mut x), splitmix(&mut x), splitmix(&mut x), splitmix(&mut x)];
        Rng { s }
    }
    pub fn next_u64(&mut self) -> u64 {
        let r = self.s[1].wrapping_mul(5).rotate_left(7).wrapping_mul(9);
        let t = self.s[1] << 17;
        self.s[2] ^= self.s[0];
        self.s[3] ^= self.s[1];
        self.s[1] ^= self.s[2];
        self.s[0] ^= self.s[3];
        self.s[2] ^= t;
        self.s[3] = self.s[3].rotate_left(45);
        r
    }
    /// uniform in 0..n (n > 0)
    pub fn below(&mut self, n: u64) -> u64 {
        debug_assert!(n > 0);
        ((self.next_u64() as u128 * n as u128) >> 64) as u64
    }
    pub fn range(&mut self, lo: i64, hi_incl: i64) -> i64 {
        lo + self.below((hi_incl - lo + 1) as u64) as i64
    }
    pub fn chance(&mut self, num: u64, den: u64) -> bool {
        self.below(den) < num
    }
    pub fn pick<'a, T>(&mut self, xs: &'a [T]) -> &'a T {
        &xs[self.below(xs.len() as u64) as usize]
    }
    pub fn weighted(&mut self, weights: &[u64]) -> usize {
        let total: u64 = weights.iter().sum();
        let mut r = self.below(total.max(1));
        for (i, w) in weights.iter().enumerate() {
            if r < *w {
                return i;
            }
            r -= *w;
        }
        weights.len() - 1
    }
    pub fn shuffle<T>(&mut self, xs: &mut [T]) {
        for i in (1..xs.len()).rev() {
            let j = self.below(i as u64 + 1) as usize;
            xs.swap(i, j);
        }
    }
}

/// 64-bit FNV-1a, for distinct-case counting and digests.
pub fn fnv(bytes: &[u8]) -> u64 {
    let mut h: u64 = 0xcbf29ce484222325;
    for b in bytes {
        h ^= *b as u64;
        h = h.wrapping_mul(0x100000001b3);
    }
    h
}
pub fn fnv_mix(h: u64, x: u64) -> u64 {
    let mut h = h;
    for b in x.to_le_bytes() {
        h ^= b as u64;
        h = h.wrapping_mul(0x100000001b3);
    }
    h
}
