//! Feature tags for positions and moves: used to bias generation and to report, in evidence,
//! which rare interactions the monitors actually observed.

use crate::*;

/// My (side to move) non-king pieces that are absolutely pinned: removing the piece would expose
/// the king to a slider that does not attack it now.
pub fn pinned_pieces(p: &Position) -> Vec<Sq> {
    let me = p.turn;
    let Some(k) = p.king_sq(me) else { return vec![] };
    let now = p.attackers(k, me.flip());
    let mut out = vec![];
    for s in 0..64u8 {
        if let Some((c, kind)) = p.board[s as usize] {
            if c == me && kind != Kind::K && aligned(k, s) {
                let mut q = p.clone();
                q.board[s as usize] = None;
                let after = q.attackers(k, me.flip());
                if after.iter().any(|a| !now.contains(a)) {
                    out.push(s);
                }
            }
        }
    }
    out
}

pub fn position_tags(p: &Position) -> Vec<&'static str> {
    let mut t = Vec::new();
    let me = p.turn;
    let opp = me.flip();
    let checkers = p.checkers();
    let legal = p.legal_moves();
    let pseudo = p.pseudo_moves();
    match checkers.len() {
        0 => {}
        1 => t.push("check"),
        _ => t.push("double-check"),
    }
    for c in &checkers {
        t.push(match p.board[*c as usize].unwrap().1 {
            Kind::P => "checker-pawn",
            Kind::N => "checker-knight",
            Kind::B => "checker-bishop",
            Kind::R => "checker-rook",
            Kind::Q => "checker-queen",
            Kind::K => "checker-king?!",
        });
    }
    let pins = pinned_pieces(p);
    if !pins.is_empty() {
        t.push("pinned>=1");
    }
    if pins.len() >= 2 {
        t.push("pinned>=2");
    }
    if pins.iter().any(|s| legal.iter().any(|m| m.from == *s)) {
        t.push("pinned-piece-moves-along-pin");
    }
    if legal.is_empty() {
        t.push(if checkers.is_empty() { "stalemate" } else { "mate" });
    }
    if p.half >= 100 {
        t.push("clock>=100");
    }
    if p.ep.is_some() {
        t.push("ep-marker");
        let eps: Vec<Mv> = pseudo.iter().copied().filter(|m| p.is_ep_capture(*m)).collect();
        if !eps.is_empty() {
            t.push("ep-capturer-present");
        }
        for m in &eps {
            if legal.contains(m) {
                t.push("ep-capture-legal");
                if pins.contains(&m.from) {
                    t.push("ep-legal-by-pinned-capturer");
                }
                if !checkers.is_empty() {
                    t.push("ep-as-check-evasion");
                    if legal.len() == 1 {
                        t.push("ep-only-legal-move");
                    }
                }
                // the victim alone shields the king on a file/diagonal but the capturer lands on it
                let k = p.king_sq(me).unwrap();
                let v = p.ep_victim().unwrap();
                let mut q = p.clone();
                q.board[v as usize] = None;
                if q.attackers(k, opp).len() > checkers.len() {
                    t.push("ep-legal-capturer-reshields-victim-line");
                }
            } else {
                t.push("ep-capture-refused");
                let n = p.apply(*m);
                let k = n.king_sq(me).unwrap();
                for a in n.attackers(k, opp) {
                    if rank_of(a) == rank_of(k) && rank_of(k) == rank_of(m.from) {
                        t.push("ep-refused-rank-exposure");
                    } else if checkers.contains(&a) {
                        t.push("ep-refused-still-in-check");
                    } else {
                        t.push("ep-refused-file-or-diagonal-exposure");
                    }
                }
            }
        }
    }
    let hr = me.home_rank();
    let (ks, qs) = if me == Col::W { (WK, WQ) } else { (BK, BQ) };
    for (idx, to_file, name_ok, name_no) in [
        (ks, 6, "castle-kingside-legal", "castle-kingside-right-but-illegal"),
        (qs, 2, "castle-queenside-legal", "castle-queenside-right-but-illegal"),
    ] {
        if p.castle[idx] {
            let m = Mv::new(sq(4, hr), sq(to_file, hr));
            if legal.contains(&m) {
                t.push(name_ok);
            } else {
                t.push(name_no);
                // why
                let path: &[i32] = if to_file == 6 { &[5, 6] } else { &[1, 2, 3] };
                if path.iter().any(|f| p.board[sq(*f, hr) as usize].is_some()) {
                    t.push("castle-path-blocked");
                } else if !checkers.is_empty() {
                    t.push("castle-refused-in-check");
                } else {
                    t.push("castle-refused-path-attacked");
                    if to_file == 2 && p.attacked(sq(1, hr), opp) {
                        t.push("castle-b-file-attacked");
                    }
                }
            }
            if to_file == 2 && legal.contains(&m) && p.attacked(sq(1, hr), opp) {
                t.push("castle-queenside-legal-with-b-file-attacked");
            }
        }
    }
    if legal.iter().any(|m| m.promo.is_some()) {
        t.push("promotion-available");
        if legal.iter().any(|m| m.promo.is_some() && p.board[m.to as usize].is_some()) {
            t.push("promotion-capture-available");
        }
    }
    if !checkers.is_empty() && !legal.is_empty() {
        let k = p.king_sq(me).unwrap();
        if legal.iter().any(|m| m.from != k && !p.is_capture(*m)) {
            t.push("evasion-by-interposition");
        }
        if legal.iter().any(|m| m.from != k && checkers.contains(&m.to)) {
            t.push("evasion-by-capturing-checker");
        }
    }
    if legal.len() >= 60 {
        t.push("moves>=60");
    }
    t
}

/// Tags of a legal move `m` played in `p`.
pub fn move_tags(p: &Position, m: Mv) -> Vec<&'static str> {
    let mut t = Vec::new();
    let me = p.turn;
    let (_, k) = p.board[m.from as usize].unwrap();
    let n = p.apply(m);
    if p.is_ep_capture(m) {
        t.push("mv-ep-capture");
    } else if p.board[m.to as usize].is_some() {
        t.push("mv-capture");
    }
    if p.is_castle(m) {
        t.push(if file_of(m.to) == 6 { "mv-castle-kingside" } else { "mv-castle-queenside" });
    }
    if let Some(pr) = m.promo {
        t.push(match pr {
            Kind::Q => "mv-promo-queen",
            Kind::R => "mv-promo-rook",
            Kind::B => "mv-promo-bishop",
            _ => "mv-promo-knight",
        });
        if p.board[m.to as usize].is_some() {
            t.push("mv-promo-capture");
        }
    }
    if p.is_double_step(m) {
        t.push("mv-double-step");
    }
    match k {
        Kind::K => t.push("mv-king"),
        Kind::P => t.push("mv-pawn"),
        Kind::R => {
            let hr = me.home_rank();
            if m.from == sq(0, hr) || m.from == sq(7, hr) {
                t.push("mv-rook-leaves-corner");
            }
        }
        _ => {}
    }
    let before = p.castle.iter().filter(|x| **x).count();
    let after = n.castle.iter().filter(|x| **x).count();
    if after < before {
        t.push("mv-loses-castling-right");
        if matches!(p.board[m.to as usize], Some((_, Kind::R))) {
            let ohr = me.flip().home_rank();
            if m.to == sq(0, ohr) || m.to == sq(7, ohr) {
                t.push("mv-captures-home-rook-with-right");
            }
        }
    }
    let checkers = n.checkers();
    if !checkers.is_empty() {
        let direct_sq = if p.is_castle(m) {
            // the rook's arrival square
            Some(sq(if file_of(m.to) == 6 { 5 } else { 3 }, rank_of(m.to)))
        } else {
            Some(m.to)
        };
        let direct = checkers.iter().any(|c| Some(*c) == direct_sq);
        let discovered = checkers.iter().any(|c| Some(*c) != direct_sq);
        if checkers.len() >= 2 {
            t.push("mv-gives-double-check");
        }
        if direct {
            t.push(match n.board[direct_sq.unwrap() as usize].unwrap().1 {
                Kind::P => "mv-direct-check-pawn",
                Kind::N => "mv-direct-check-knight",
                Kind::B => "mv-direct-check-bishop",
                Kind::R => {
                    if p.is_castle(m) {
                        "mv-direct-check-castling-rook"
                    } else {
                        "mv-direct-check-rook"
                    }
                }
                Kind::Q => "mv-direct-check-queen",
                Kind::K => "mv-direct-check-king?!",
            });
            if m.promo.is_some() {
                t.push("mv-check-by-promoted-piece");
            }
        }
        if discovered {
            t.push(match k {
                Kind::P => {
                    if p.is_ep_capture(m) {
                        "mv-discovered-check-by-ep"
                    } else {
                        "mv-discovered-check-by-pawn"
                    }
                }
                Kind::N => "mv-discovered-check-by-knight",
                Kind::B => "mv-discovered-check-by-bishop",
                Kind::R => "mv-discovered-check-by-rook",
                Kind::Q => "mv-discovered-check-by-queen?!",
                Kind::K => "mv-discovered-check-by-king",
            });
        }
        if n.legal_moves().is_empty() {
            t.push("mv-mates");
        }
    }
    t
}

/// Does the side to move have a mate in one? Returns all mating moves.
pub fn mating_moves(p: &Position) -> Vec<Mv> {
    p.legal_moves()
        .into_iter()
        .filter(|m| {
            let n = p.apply(*m);
            n.in_check() && n.legal_moves().is_empty()
        })
        .collect()
}
