//! Reading castling rights and the e.p. file of a real board out of text the crates print.
//!
//! The boards expose no accessor for these two fields.  The monitors prefer the `Debug` rendering
//! (lines "castle rights: KQkq" and "en-passant: D"), because it is independent of the FEN writer
//! that property C05 judges; but that rendering belongs to no property and may change shape.  So the
//! channel is calibrated once per process on positions whose rights / e.p. file are known: only if
//! it reproduces all of them is it used, otherwise the FEN writer's third and fourth fields are.

use crate::Position;

pub type Rights = ([bool; 4], Option<u8>);

pub fn from_debug_text(dbg: &str) -> Result<Rights, String> {
    let mut castle = [false; 4];
    let mut ep = None;
    let mut saw_rights = false;
    for line in dbg.lines() {
        if let Some(r) = line.strip_prefix("castle rights: ") {
            saw_rights = true;
            if r != "-" {
                for ch in r.chars() {
                    let i = match ch {
                        'K' => 0,
                        'Q' => 1,
                        'k' => 2,
                        'q' => 3,
                        _ => return Err(format!("unexpected castle rights text {r:?}")),
                    };
                    if castle[i] {
                        return Err(format!("duplicate right in {r:?}"));
                    }
                    castle[i] = true;
                }
            }
        } else if let Some(e) = line.strip_prefix("en-passant: ") {
            let e = e.trim();
            match "ABCDEFGH".find(e) {
                Some(i) if e.len() == 1 => ep = Some(i as u8),
                _ => return Err(format!("unexpected en-passant text {e:?}")),
            }
        }
    }
    if !saw_rights {
        return Err("Debug rendering has no 'castle rights:' line".into());
    }
    Ok((castle, ep))
}

pub fn from_fen_text(text: &str) -> Result<Rights, String> {
    let f: Vec<&str> = text.split_whitespace().collect();
    if f.len() != 6 {
        return Err(format!("FEN writer produced {} fields: {text:?}", f.len()));
    }
    let mut castle = [false; 4];
    if f[2] != "-" {
        for ch in f[2].chars() {
            let i = match ch {
                'K' => 0,
                'Q' => 1,
                'k' => 2,
                'q' => 3,
                _ => return Err(format!("unexpected castle rights field {:?}", f[2])),
            };
            castle[i] = true;
        }
    }
    let mut ep = None;
    if f[3] != "-" {
        let c = f[3].as_bytes()[0];
        if !(b'a'..=b'h').contains(&c) {
            return Err(format!("unexpected en-passant field {:?}", f[3]));
        }
        ep = Some(c - b'a');
    }
    Ok((castle, ep))
}

/// Positions with known rights / e.p. file: every subset of rights, and a marker on every file for
/// either side to move.
pub fn calibration_positions() -> Vec<Position> {
    let mut v = Vec::new();
    for mask in 0..16u8 {
        let mut p = Position::from_fen("r3k2r/8/8/8/8/8/8/R3K2R w - - 0 1").unwrap();
        for i in 0..4 {
            p.castle[i] = mask & (1 << i) != 0;
        }
        v.push(p);
    }
    for f in 0..8u8 {
        let file = (b'a' + f) as char;
        let other = (b'a' + if f == 0 { 1 } else { f - 1 }) as char;
        // white to move, black pawn just double-stepped on `file`; a white pawn beside it
        let mut rank5 = [b'1'; 8];
        rank5[f as usize] = b'p';
        rank5[(other as u8 - b'a') as usize] = b'P';
        let row = |cells: &[u8; 8]| -> String {
            let mut s = String::new();
            let mut run = 0;
            for c in cells {
                if *c == b'1' {
                    run += 1;
                } else {
                    if run > 0 {
                        s.push_str(&run.to_string());
                        run = 0;
                    }
                    s.push(*c as char);
                }
            }
            if run > 0 {
                s.push_str(&run.to_string());
            }
            s
        };
        let w = format!("4k3/8/8/{}/8/8/8/4K3 w - {file}6 0 1", row(&rank5));
        let mut rank4 = [b'1'; 8];
        rank4[f as usize] = b'P';
        rank4[(other as u8 - b'a') as usize] = b'p';
        let b = format!("4k3/8/8/8/{}/8/8/4K3 b - {file}3 0 1", row(&rank4));
        for fen in [w, b] {
            if let Ok(p) = Position::from_fen(&fen) {
                v.push(p);
            }
        }
    }
    v
}
