//! Position workload shared by the monitors: roots, crafted families, random placements, walks.

use crate::rng::Rng;
use crate::*;

/// R1: the FENs of the repository's perft suite, CPW perft positions, and hand-picked classics
/// for e.p. / pins / castling / promotion / double check.
pub const CORPUS: &[&str] = &[
    "rnbqkbnr/pppppppp/8/8/8/8/PPPPPPPP/RNBQKBNR w KQkq - 0 0",
    "r3k2r/p1ppqpb1/bn2pnp1/3PN3/1p2P3/2N2Q1p/PPPBBPPP/R3K2R w KQkq - 0 1",
    "8/5bk1/8/2Pp4/8/1K6/8/8 w - d6 0 1",
    "8/8/1k6/8/2pP4/8/5BK1/8 b - d3 0 1",
    "8/8/1k6/2b5/2pP4/8/5K2/8 b - d3 0 1",
    "8/5k2/8/2Pp4/2B5/1K6/8/8 w - d6 0 1",
    "5k2/8/8/8/8/8/8/4K2R w K - 0 1",
    "4k2r/8/8/8/8/8/8/5K2 b k - 0 1",
    "3k4/8/8/8/8/8/8/R3K3 w Q - 0 1",
    "r3k3/8/8/8/8/8/8/3K4 b q - 0 1",
    "r3k2r/1b4bq/8/8/8/8/7B/R3K2R w KQkq - 0 1",
    "r3k2r/7b/8/8/8/8/1B4BQ/R3K2R b KQkq - 0 1",
    "r3k2r/8/3Q4/8/8/5q2/8/R3K2R b KQkq - 0 1",
    "r3k2r/8/5Q2/8/8/3q4/8/R3K2R w KQkq - 0 1",
    "2K2r2/4P3/8/8/8/8/8/3k4 w - - 0 1",
    "3K4/8/8/8/8/8/4p3/2k2R2 b - - 0 1",
    "8/8/1P2K3/8/2n5/1q6/8/5k2 b - - 0 1",
    "5K2/8/1Q6/2N5/8/1p2k3/8/8 w - - 0 1",
    "4k3/1P6/8/8/8/8/K7/8 w - - 0 1",
    "8/k7/8/8/8/8/1p6/4K3 b - - 0 1",
    "8/P1k5/K7/8/8/8/8/8 w - - 0 1",
    "8/8/8/8/8/k7/p1K5/8 b - - 0 1",
    "K1k5/8/P7/8/8/8/8/8 w - - 0 1",
    "8/8/8/8/8/p7/8/k1K5 b - - 0 1",
    "8/k1P5/8/1K6/8/8/8/8 w - - 0 1",
    "8/8/8/8/1k6/8/K1p5/8 b - - 0 1",
    "8/8/2k5/5q2/5n2/8/5K2/8 b - - 0 1",
    "8/5k2/8/5N2/5Q2/2K5/8/8 w - - 0 1",
    "r4rk1/1pp1qppp/p1np1n2/2b1p1B1/2B1P1b1/P1NP1N2/1PP1QPPP/R4RK1 w - - 0 10",
    "rnbqkbnr/ppp2pp1/4p3/3N4/3PpPp1/8/PPP3PP/R1B1KBNR b KQkq f3 0 1",
    // CPW perft positions 3-6
    "8/2p5/3p4/KP5r/1R3p1k/8/4P1P1/8 w - - 0 1",
    "r3k2r/Pppp1ppp/1b3nbN/nP6/BBP1P3/q4N2/Pp1P2PP/R2Q1RK1 w kq - 0 1",
    "r2q1rk1/pP1p2pp/Q4n2/bbp1p3/Np6/1B3NBn/pPPP1PPP/R3K2R b KQ - 0 1",
    "rnbq1k1r/pp1Pbppp/2p5/8/2B5/8/PPP1NnPP/RNBQK2R w KQ - 1 8",
    // e.p. classics: rank exposure, pinned capturer along the pin line, victim shielding a file
    "8/8/8/KPp4r/8/8/8/4k3 w - c6 0 1",
    "7b/8/8/4Pp2/8/8/1K6/4k3 w - f6 0 1",
    "3r4/8/8/3pP3/8/8/8/3K3k w - d6 0 1",
    "8/8/8/8/k1pP3R/8/8/4K3 b - d3 0 1",
    "4k3/8/8/8/1pP5/8/8/4K2B b - c3 0 1",
    "8/8/8/2k5/3Pp3/8/8/4K3 b - d3 0 1",
    "8/8/8/8/3pP1k1/8/8/4K2B b - e3 0 1",
    "4k3/8/8/q2pP2K/8/8/8/8 w - d6 0 1",
    "4k3/8/8/K2pP2q/8/8/8/8 w - d6 0 1",
    "8/8/8/1k1pP2R/8/8/8/4K3 w - d6 0 1",
    "4k3/b7/8/8/3Pp3/8/8/6K1 b - d3 0 1",
    // e.p. as the only evasion of a pawn check
    "8/8/8/2k5/3Pp3/8/8/4K3 b - d3 0 5",
    "8/8/8/8/4pP2/4k3/8/4K3 b - f3 0 1",
    // castling through / out of / into check
    "r3k2r/8/8/8/8/8/8/R3K2R w KQkq - 0 1",
    "r3k2r/8/8/8/8/5r2/8/R3K2R w KQkq - 0 1",
    "r3k2r/8/8/8/8/1r6/8/R3K2R w KQkq - 0 1",
    "r3k2r/8/8/8/8/4r3/8/R3K2R w KQkq - 0 1",
    "r3k2r/8/8/8/8/8/6n1/R3K2R w KQkq - 0 1",
    "r3k2r/8/8/8/8/8/3p4/R3K2R w KQkq - 0 1",
    "r3k2r/8/8/8/1b6/8/8/R3K2R w KQkq - 0 1",
    "rn2k1nr/8/8/8/8/8/8/RN2K1NR w KQkq - 0 1",
    "4k3/8/8/8/8/8/8/R3K2R w KQ - 99 60",
    // promotions: capture-promotion, promotion with check, under pin, as evasion
    "1n1n4/2P1P3/8/8/8/8/8/k6K w - - 0 1",
    "r1n1k3/1P1P4/8/8/8/8/8/4K3 w - - 0 1",
    "4k3/8/8/8/8/8/1p1p4/R1N1K3 b - - 0 1",
    "3rk3/2P5/8/8/8/8/8/2K5 w - - 0 1",
    "8/2P2k2/8/8/8/8/8/K7 w - - 0 1",
    "k7/2P5/8/8/8/8/8/K1r5 w - - 0 1",
    // double checks, discovered checks
    "4k3/8/8/8/8/8/3N4/3RK3 w - - 0 1",
    "4k3/4r3/8/8/8/8/4B3/4K3 w - - 0 1",
    "r3k3/8/8/8/8/8/4B3/4RK2 w - - 0 1",
    "8/8/8/8/8/5k2/4n1n1/7K w - - 0 1",
    "4r1k1/8/8/8/7b/8/4N3/4K3 w - - 0 1",
    // mates, stalemates, near terminal
    "7k/5Q2/6K1/8/8/8/8/8 b - - 0 1",
    "7k/5K2/6Q1/8/8/8/8/8 b - - 0 1",
    "6k1/5ppp/8/8/8/8/8/R3K3 w Q - 0 1",
    "r1bqkb1r/pppp1ppp/2n2n2/4p2Q/2B1P3/8/PPPP1PPP/RNB1K1NR w KQkq - 4 4",
    "6rk/6pp/7N/8/8/8/8/6K1 w - - 0 1",
    "k7/8/1K6/8/8/8/8/7R w - - 98 1",
    "k7/8/1K6/8/8/8/8/7R w - - 99 1",
    "k7/8/1K6/8/8/8/8/7R w - - 100 1",
    // extremal / dense
    "R6R/3Q4/1Q4Q1/4Q3/2Q4Q/Q4Q2/pp1Q4/kBNN1KB1 w - - 0 1",
    "3Q4/1Q4Q1/4Q3/2Q4R/Q4Q2/3Q4/1Q4Rp/1K1BBNNk w - - 0 1",
    "rnbqkbnr/1ppppppp/8/pP6/8/8/P1PPPPPP/RNBQKBNR w KQkq a6 0 3",
];

pub fn corpus() -> Vec<Position> {
    CORPUS.iter().map(|f| Position::from_fen(f).unwrap_or_else(|e| panic!("corpus fen {f}: {e}"))).collect()
}

// --------------------------------------------------------------------------- random placements

#[derive(Clone, Copy, Debug, PartialEq, Eq)]
pub enum Theme {
    Sparse,
    Mid,
    Dense,
    Castle,
    PawnRace,
    Promo,
    MatingNet,
}

pub const THEMES: [Theme; 7] =
    [Theme::Sparse, Theme::Mid, Theme::Dense, Theme::Castle, Theme::PawnRace, Theme::Promo, Theme::MatingNet];

fn place_random(p: &mut Position, rng: &mut Rng, c: Col, k: Kind, ranks: std::ops::RangeInclusive<i32>) -> bool {
    for _ in 0..40 {
        let f = rng.range(0, 7) as i32;
        let r = rng.range(*ranks.start() as i64, *ranks.end() as i64) as i32;
        let s = sq(f, r);
        if p.board[s as usize].is_none() {
            p.board[s as usize] = Some((c, k));
            return true;
        }
    }
    false
}

/// Seeded scatter; returns a position satisfying `chess_root_ok` or None after bounded retries.
/// `allow_back_rank_pawns` produces the "accepted but not chess" stratum used by C06/C07 only.
pub fn random_placement(rng: &mut Rng, theme: Theme, allow_back_rank_pawns: bool) -> Option<Position> {
    for _attempt in 0..60 {
        let mut p = Position::empty();
        p.turn = if rng.chance(1, 2) { Col::W } else { Col::B };
        let pawn_ranks = if allow_back_rank_pawns { 0..=7 } else { 1..=6 };
        match theme {
            Theme::Castle => {
                for c in [Col::W, Col::B] {
                    let hr = c.home_rank();
                    if rng.chance(5, 6) {
                        p.board[sq(4, hr) as usize] = Some((c, Kind::K));
                        if rng.chance(3, 4) {
                            p.board[sq(0, hr) as usize] = Some((c, Kind::R));
                        }
                        if rng.chance(3, 4) {
                            p.board[sq(7, hr) as usize] = Some((c, Kind::R));
                        }
                    } else {
                        place_random(&mut p, rng, c, Kind::K, 0..=7);
                    }
                }
            }
            _ => {
                for c in [Col::W, Col::B] {
                    let ranks = if theme == Theme::MatingNet && c == p.turn.flip() && rng.chance(2, 3) {
                        // king of the side about to be mated near an edge
                        if rng.chance(1, 2) { 0..=0 } else { 7..=7 }
                    } else {
                        0..=7
                    };
                    place_random(&mut p, rng, c, Kind::K, ranks);
                }
            }
        }
        let extra = match theme {
            Theme::Sparse => rng.range(0, 4),
            Theme::Mid => rng.range(5, 16),
            Theme::Dense => rng.range(18, 30),
            Theme::Castle => rng.range(0, 12),
            Theme::PawnRace => rng.range(2, 12),
            Theme::Promo => rng.range(1, 8),
            Theme::MatingNet => rng.range(1, 5),
        };
        for _ in 0..extra {
            let c = if rng.chance(1, 2) { Col::W } else { Col::B };
            if p.count(c) >= 16 {
                continue;
            }
            let k = match theme {
                Theme::PawnRace => *rng.pick(&[Kind::P, Kind::P, Kind::P, Kind::R, Kind::B, Kind::Q, Kind::N]),
                Theme::Promo => *rng.pick(&[Kind::P, Kind::P, Kind::N, Kind::R, Kind::B, Kind::Q]),
                Theme::MatingNet => {
                    if c == p.turn {
                        *rng.pick(&[Kind::Q, Kind::R, Kind::R, Kind::B, Kind::N, Kind::P, Kind::Q])
                    } else {
                        *rng.pick(&[Kind::P, Kind::P, Kind::N, Kind::B, Kind::R])
                    }
                }
                _ => *rng.pick(&[Kind::P, Kind::P, Kind::P, Kind::N, Kind::B, Kind::R, Kind::Q]),
            };
            if k == Kind::P {
                let ranks = match theme {
                    Theme::PawnRace => {
                        // start rank, or the rank where an enemy double step can be captured
                        if rng.chance(1, 2) {
                            let r = c.pawn_start_rank();
                            r..=r
                        } else {
                            let r = if c == Col::W { 4 } else { 3 };
                            r..=r
                        }
                    }
                    Theme::Promo => {
                        let r = if c == Col::W { 6 } else { 1 };
                        if rng.chance(3, 4) { r..=r } else { pawn_ranks.clone() }
                    }
                    _ => pawn_ranks.clone(),
                };
                place_random(&mut p, rng, c, k, ranks);
            } else {
                place_random(&mut p, rng, c, k, 0..=7);
            }
        }
        // rights consistent with placement, each with probability 3/4
        for (idx, c, rf) in [(WK, Col::W, 7), (WQ, Col::W, 0), (BK, Col::B, 7), (BQ, Col::B, 0)] {
            let hr = c.home_rank();
            if p.board[sq(4, hr) as usize] == Some((c, Kind::K))
                && p.board[sq(rf, hr) as usize] == Some((c, Kind::R))
                && rng.chance(3, 4)
            {
                p.castle[idx] = true;
            }
        }
        // e.p. marker: a pawn of the side not to move on its double-step rank with empty origin and
        // target squares
        let opp = p.turn.flip();
        let dr = opp.pawn_start_rank() + 2 * opp.fwd();
        let mut cands = vec![];
        for f in 0..8 {
            if p.board[sq(f, dr) as usize] == Some((opp, Kind::P))
                && p.board[sq(f, dr - opp.fwd()) as usize].is_none()
                && p.board[sq(f, opp.pawn_start_rank()) as usize].is_none()
            {
                cands.push(f as u8);
            }
        }
        if !cands.is_empty() && rng.chance(2, 3) {
            p.ep = Some(*rng.pick(&cands));
        }
        p.half = match rng.below(8) {
            0 => rng.range(90, 105) as u32,
            1 => rng.range(0, 9999) as u32,
            _ => rng.range(0, 30) as u32,
        };
        if p.ep.is_some() {
            p.half = 0;
        }
        p.full = match rng.below(6) {
            0 => rng.range(0, 9999) as u32,
            _ => rng.range(0, 80) as u32,
        };
        let ok = if allow_back_rank_pawns { p.c06_ok() } else { p.chess_root_ok() };
        if ok.is_ok() {
            return Some(p);
        }
        if p.ep.is_some() {
            p.ep = None;
            let ok = if allow_back_rank_pawns { p.c06_ok() } else { p.chess_root_ok() };
            if ok.is_ok() {
                return Some(p);
            }
        }
    }
    None
}

// --------------------------------------------------------------------------- crafted families

/// A crafted case: a pre-position plus moves to be *played through the real API* to reach the
/// position of interest (history matters: e.p. markers and castling rights arise from moves).
#[derive(Clone, Debug)]
pub struct Crafted {
    pub family: &'static str,
    pub pre: Position,
    pub moves: Vec<Mv>,
}

fn try_push(out: &mut Vec<Crafted>, family: &'static str, pre: Position, moves: Vec<Mv>) {
    if pre.chess_root_ok().is_err() {
        return;
    }
    // every listed move must be legal in the model when played in order
    let mut p = pre.clone();
    for m in &moves {
        if !p.is_legal(*m) {
            return;
        }
        p = p.apply(*m);
    }
    out.push(Crafted { family, pre, moves });
}

/// e.p. x line geometry.  For each colour, e.p. file, capturer on the left/right/both, the
/// capturer's king on every square and one enemy slider (R/B/Q) on every square aligned with the
/// king (plus 0/1 extra blocker between them), build the position *before* the double step and
/// play the double step.  Covers rank exposure, capturer pinned along/against the capture line,
/// victim shielding a file/diagonal, e.p. as only evasion, e.p. giving discovered check.
/// Cases are dealt round-robin to shards.
pub fn ep_family(shard: u64, nshards: u64, stride: u64, out: &mut Vec<Crafted>) {
    let mut idx = 0u64;
    for victim_col in [Col::B, Col::W] {
        let capt_col = victim_col.flip();
        let start_r = victim_col.pawn_start_rank();
        let land_r = start_r + 2 * victim_col.fwd();
        for f in 0..8i32 {
            for capt_mask in 1..=3u32 {
                let left = capt_mask & 1 != 0 && f > 0;
                let right = capt_mask & 2 != 0 && f < 7;
                if !left && !right {
                    continue;
                }
                if (capt_mask & 1 != 0 && f == 0) || (capt_mask & 2 != 0 && f == 7) {
                    continue;
                }
                let mut base = Position::empty();
                base.turn = victim_col;
                base.board[sq(f, start_r) as usize] = Some((victim_col, Kind::P));
                if left {
                    base.board[sq(f - 1, land_r) as usize] = Some((capt_col, Kind::P));
                }
                if right {
                    base.board[sq(f + 1, land_r) as usize] = Some((capt_col, Kind::P));
                }
                let ds = Mv::new(sq(f, start_r), sq(f, land_r));
                for ksq in 0..64u8 {
                    if base.board[ksq as usize].is_some() {
                        continue;
                    }
                    for ssq in 0..64u8 {
                        if ssq == ksq || base.board[ssq as usize].is_some() || !aligned(ksq, ssq) {
                            continue;
                        }
                        for sk in [Kind::R, Kind::B, Kind::Q] {
                            idx += 1;
                            if idx % nshards != shard || (idx / nshards) % stride != 0 {
                                continue;
                            }
                            let mut p = base.clone();
                            p.board[ksq as usize] = Some((capt_col, Kind::K));
                            p.board[ssq as usize] = Some((victim_col, sk));
                            // victim side's king: first square (from a fixed list) that is free and
                            // not adjacent to the other king
                            let cands: [Sq; 6] = [sq(7, 7), sq(0, 0), sq(7, 0), sq(0, 7), sq(4, 0), sq(3, 7)];
                            let mut placed = false;
                            for vk in cands {
                                if p.board[vk as usize].is_some() {
                                    continue;
                                }
                                let mut q = p.clone();
                                q.board[vk as usize] = Some((victim_col, Kind::K));
                                if q.chess_root_ok().is_ok() && q.is_legal(ds) {
                                    p = q;
                                    placed = true;
                                    break;
                                }
                            }
                            if !placed {
                                continue;
                            }
                            try_push(out, "ep-geometry", p.clone(), vec![ds]);
                            // one extra blocker of either colour between king and slider
                            let betw = between_squares(ksq, ssq);
                            if !betw.is_empty() {
                                let b = betw[(idx as usize / 3) % betw.len()];
                                if p.board[b as usize].is_none() && b != ds.to && b != ds.from {
                                    let mut q = p.clone();
                                    let bc = if idx & 8 == 0 { capt_col } else { victim_col };
                                    q.board[b as usize] = Some((bc, Kind::N));
                                    try_push(out, "ep-geometry-blocker", q, vec![ds]);
                                }
                            }
                        }
                    }
                }
            }
        }
    }
}

/// "Frozen" e.p. cases: e.p. geometry positions in which the side to move has NO other legal move,
/// so that the legality of the e.p. capture alone decides between stalemate / mate and a running
/// game (C03's terminal classification, C11's "no move exists", C12).  Built from `ep_family` cases by
/// blocking the capturers' pushes and greedily adding enemy attackers around the king; everything
/// is validated by the model (the pre-position must be a valid root and the double step legal).
pub fn ep_frozen_family(rng: &mut Rng, shard: u64, nshards: u64, stride: u64, out: &mut Vec<Crafted>) {
    let mut base = Vec::new();
    ep_family(shard, nshards, stride, &mut base);
    for cr in base {
        let ds = cr.moves[0];
        let post0 = cr.pre.apply(ds);
        let me = post0.turn;
        let opp = me.flip();
        let mut post = post0.clone();
        // the position before the double step, derived from a post position
        let pre_of = |p: &Position| -> Position {
            let mut q = p.clone();
            q.board[ds.to as usize] = None;
            q.board[ds.from as usize] = Some((opp, Kind::P));
            q.turn = opp;
            q.ep = None;
            q
        };
        let ok = |p: &Position| -> bool {
            let q = pre_of(p);
            q.count(opp) <= 16 && q.chess_root_ok().is_ok() && q.is_legal(ds) && q.apply(ds) == *p
        };
        let non_ep_moves = |p: &Position| -> Vec<Mv> { p.legal_moves().into_iter().filter(|m| !p.is_ep_capture(*m)).collect() };
        let mut success = false;
        for _round in 0..60 {
            let rest = non_ep_moves(&post);
            if rest.is_empty() {
                success = true;
                break;
            }
            let m = *rng.pick(&rest);
            let (_, k) = post.board[m.from as usize].unwrap();
            let mut placed = false;
            if k != Kind::K {
                // a non-king man that can move: block a pawn's push, otherwise remove the man
                let mut q = post.clone();
                if k == Kind::P && file_of(m.from) == file_of(m.to) && q.board[m.to as usize].is_none() {
                    q.board[m.to as usize] = Some((opp, if rank_of(m.to) == 0 || rank_of(m.to) == 7 { Kind::N } else { Kind::P }));
                } else {
                    q.board[m.from as usize] = None;
                }
                if ok(&q) {
                    post = q;
                    placed = true;
                }
            } else {
                // attack the king's destination square from a distance
                for _try in 0..40 {
                    let kind = *rng.pick(&[Kind::N, Kind::R, Kind::B, Kind::Q, Kind::P, Kind::K]);
                    let s = rng.below(64) as u8;
                    if post.board[s as usize].is_some() || s == ds.from {
                        continue;
                    }
                    if kind == Kind::P && (rank_of(s) == 0 || rank_of(s) == 7) {
                        continue;
                    }
                    if kind == Kind::K {
                        continue;
                    }
                    let mut q = post.clone();
                    q.board[s as usize] = Some((opp, kind));
                    if !q.attacked(m.to, opp) || q.legal_moves().contains(&m) {
                        continue;
                    }
                    if ok(&q) && non_ep_moves(&q).len() < rest.len() {
                        post = q;
                        placed = true;
                        break;
                    }
                }
            }
            if !placed {
                break;
            }
        }
        if success {
            let pre = pre_of(&post);
            try_push(out, "ep-frozen", pre, vec![ds]);
        }
    }
}

/// Geometry-exhaustive check / pin family: for EVERY aligned (king, enemy slider) pair of squares
///  (a) the slider gives check and an own knight or rook can interpose on one of the between squares
///      (each between square in turn) or capture the checker,
///  (b) an own slider stands on each between square in turn, pinned: it may move along the line and
///      capture the pinner, and nothing else.
/// A single wrong entry of a between / line table, or a slip in the evasion / pin masks that depends
/// on one particular geometry, shows up here.
pub fn line_geometry_family(shard: u64, nshards: u64, stride: u64, out: &mut Vec<Crafted>) {
    let mut idx = 0u64;
    for me in [Col::W, Col::B] {
        let opp = me.flip();
        for k in 0..64u8 {
            for s in 0..64u8 {
                if !aligned(k, s) {
                    continue;
                }
                let betw = between_squares(k, s);
                let diagonal = file_of(k) != file_of(s) && rank_of(k) != rank_of(s);
                for sk in [if diagonal { Kind::B } else { Kind::R }, Kind::Q] {
                    for (bi, &b) in betw.iter().enumerate() {
                        idx += 1;
                        if idx % nshards != shard || (idx / nshards) % stride != 0 {
                            continue;
                        }
                        // enemy king: any square not adjacent / aligned trouble - first that validates
                        for variant in 0..3 {
                            let mut p = Position::empty();
                            p.turn = me;
                            p.board[k as usize] = Some((me, Kind::K));
                            p.board[s as usize] = Some((opp, sk));
                            match variant {
                                0 => {
                                    // (a) interposition by a knight: put it a knight's move away from b
                                    let mut placed = false;
                                    for (df, dr) in [(1, 2), (2, 1), (-1, 2), (-2, 1), (1, -2), (2, -1), (-1, -2), (-2, -1)] {
                                        let (f, r) = (file_of(b) + df, rank_of(b) + dr);
                                        if on_board(f, r) && p.board[sq(f, r) as usize].is_none() && !betw.contains(&sq(f, r)) {
                                            p.board[sq(f, r) as usize] = Some((me, Kind::N));
                                            placed = true;
                                            break;
                                        }
                                    }
                                    if !placed {
                                        continue;
                                    }
                                }
                                1 => {
                                    // (b) own slider pinned on b
                                    let own = if bi % 2 == 0 { sk } else if diagonal { Kind::B } else { Kind::R };
                                    p.board[b as usize] = Some((me, own));
                                }
                                _ => {
                                    // (b') own piece that cannot move along the line, pinned on b
                                    p.board[b as usize] = Some((me, if diagonal { Kind::R } else { Kind::B }));
                                }
                            }
                            let mut ok = false;
                            for ek in [sq(7, 7), sq(0, 0), sq(7, 0), sq(0, 7), sq(3, 3), sq(4, 5)] {
                                if p.board[ek as usize].is_some() {
                                    continue;
                                }
                                let mut q = p.clone();
                                q.board[ek as usize] = Some((opp, Kind::K));
                                if q.chess_root_ok().is_ok() {
                                    p = q;
                                    ok = true;
                                    break;
                                }
                            }
                            if ok {
                                out.push(Crafted { family: "line-geometry", pre: p, moves: vec![] });
                            }
                        }
                    }
                }
            }
        }
    }
}

/// Two own pieces of the same kind pinned at once along different lines, one of them unable to
/// move along its pin (rook pinned on a diagonal / bishop on a file), the other mobile - in both
/// square orders.
pub fn double_pin_family(rng: &mut Rng, n: usize, out: &mut Vec<Crafted>) {
    let dirs: [(i32, i32); 8] = [(1, 0), (0, 1), (-1, 0), (0, -1), (1, 1), (-1, 1), (-1, -1), (1, -1)];
    let mut made = 0;
    let mut tries = 0;
    while made < n && tries < n * 80 {
        tries += 1;
        let me = if tries % 2 == 0 { Col::W } else { Col::B };
        let opp = me.flip();
        let k = rng.below(64) as u8;
        let kind = *rng.pick(&[Kind::R, Kind::B, Kind::Q, Kind::N]);
        let d1 = *rng.pick(&dirs);
        let d2 = *rng.pick(&dirs);
        if d1 == d2 {
            continue;
        }
        let mut p = Position::empty();
        p.turn = me;
        p.board[k as usize] = Some((me, Kind::K));
        let mut ok = true;
        for d in [d1, d2] {
            let a = rng.range(1, 3) as i32;
            let b = a + rng.range(1, 3) as i32;
            let (pf, pr) = (file_of(k) + d.0 * a, rank_of(k) + d.1 * a);
            let (sf, sr) = (file_of(k) + d.0 * b, rank_of(k) + d.1 * b);
            if !on_board(pf, pr) || !on_board(sf, sr) || p.board[sq(pf, pr) as usize].is_some() || p.board[sq(sf, sr) as usize].is_some() {
                ok = false;
                break;
            }
            p.board[sq(pf, pr) as usize] = Some((me, kind));
            let diag = d.0 != 0 && d.1 != 0;
            p.board[sq(sf, sr) as usize] = Some((opp, if rng.chance(1, 3) { Kind::Q } else if diag { Kind::B } else { Kind::R }));
        }
        if !ok {
            continue;
        }
        place_random(&mut p, rng, opp, Kind::K, 0..=7);
        for _ in 0..rng.range(0, 3) {
            let c = if rng.chance(1, 2) { me } else { opp };
            let extra = *rng.pick(&[Kind::P, Kind::N, Kind::B]);
            place_random(&mut p, rng, c, extra, 1..=6);
        }
        if p.chess_root_ok().is_ok() && crate::tags::pinned_pieces(&p).len() >= 2 {
            made += 1;
            out.push(Crafted { family: "double-pin", pre: p, moves: vec![] });
        }
    }
}

/// e.p. captures that DISCOVER a check or a pin on the other side: a slider of the capturer's colour
/// is aligned with the victim's king through the captured pawn (which disappears from a square the
/// mover neither leaves nor lands on) or through the capturer's own square.  History: pre-position,
/// the double step, then the e.p. capture.
pub fn ep_discovery_family(shard: u64, nshards: u64, stride: u64, out: &mut Vec<Crafted>) {
    let mut idx = 0u64;
    for victim_col in [Col::B, Col::W] {
        let me = victim_col.flip();
        let start_r = victim_col.pawn_start_rank();
        let land_r = start_r + 2 * victim_col.fwd();
        let target_r = start_r + victim_col.fwd();
        for f in 0..8i32 {
            for side in [-1, 1] {
                let cf = f + side;
                if !on_board(cf, land_r) {
                    continue;
                }
                let ds = Mv::new(sq(f, start_r), sq(f, land_r));
                let epm = Mv::new(sq(cf, land_r), sq(f, target_r));
                for through in [sq(f, land_r), sq(cf, land_r)] {
                    for vk in 0..64u8 {
                        if !aligned(vk, through) {
                            continue;
                        }
                        for ss in 0..64u8 {
                            if !aligned(vk, ss) || !strictly_between(vk, ss, through) {
                                continue;
                            }
                            idx += 1;
                            if idx % nshards != shard || (idx / nshards) % stride != 0 {
                                continue;
                            }
                            let diag = file_of(vk) != file_of(ss) && rank_of(vk) != rank_of(ss);
                            let mut p = Position::empty();
                            p.turn = victim_col;
                            p.board[sq(f, start_r) as usize] = Some((victim_col, Kind::P));
                            p.board[sq(cf, land_r) as usize] = Some((me, Kind::P));
                            if p.board[vk as usize].is_some() || p.board[ss as usize].is_some() {
                                continue;
                            }
                            p.board[vk as usize] = Some((victim_col, Kind::K));
                            p.board[ss as usize] = Some((me, if idx % 3 == 0 { Kind::Q } else if diag { Kind::B } else { Kind::R }));
                            // a victim-side piece that becomes pinned / must answer the check
                            let mut placed = false;
                            for mk in [sq(0, me.home_rank()), sq(7, me.home_rank()), sq(4, me.home_rank()), sq(2, (me.home_rank() - 1).abs())] {
                                if p.board[mk as usize].is_some() {
                                    continue;
                                }
                                let mut q = p.clone();
                                q.board[mk as usize] = Some((me, Kind::K));
                                if q.chess_root_ok().is_ok() && q.is_legal(ds) && q.apply(ds).is_legal(epm) {
                                    p = q;
                                    placed = true;
                                    break;
                                }
                            }
                            if !placed {
                                continue;
                            }
                            if idx % 2 == 0 {
                                // an extra victim-side knight that could (illegally) ignore the check
                                for ns in [sq(1, 2), sq(6, 5), sq(2, 5), sq(5, 2)] {
                                    if p.board[ns as usize].is_none() {
                                        let mut q = p.clone();
                                        q.board[ns as usize] = Some((victim_col, Kind::N));
                                        if q.chess_root_ok().is_ok() && q.is_legal(ds) && q.apply(ds).is_legal(epm) {
                                            p = q;
                                        }
                                        break;
                                    }
                                }
                            }
                            try_push(out, "ep-discovery", p, vec![ds, epm]);
                        }
                    }
                }
            }
        }
    }
}

/// castling x attackers: rights subsets, one enemy piece of each kind on each square, optional
/// blocker on a path square, both colours.
pub fn castle_family(out: &mut Vec<Crafted>) {
    for me in [Col::W, Col::B] {
        let opp = me.flip();
        let hr = me.home_rank();
        let ohr = opp.home_rank();
        for rights in 1..=3u32 {
            for ak in KINDS {
                for asq in 0..64u8 {
                    for blocker in 0..=6usize {
                        let mut p = Position::empty();
                        p.turn = me;
                        p.board[sq(4, hr) as usize] = Some((me, Kind::K));
                        let (ki, qi) = if me == Col::W { (WK, WQ) } else { (BK, BQ) };
                        if rights & 1 != 0 {
                            p.board[sq(7, hr) as usize] = Some((me, Kind::R));
                            p.castle[ki] = true;
                        }
                        if rights & 2 != 0 {
                            p.board[sq(0, hr) as usize] = Some((me, Kind::R));
                            p.castle[qi] = true;
                        }
                        if p.board[asq as usize].is_some() {
                            continue;
                        }
                        if ak == Kind::K {
                            p.board[asq as usize] = Some((opp, Kind::K));
                        } else {
                            if ak == Kind::P && (rank_of(asq) == 0 || rank_of(asq) == 7) {
                                continue;
                            }
                            p.board[asq as usize] = Some((opp, ak));
                            // enemy king far away on its own back rank
                            let mut ok = false;
                            for kf in [7, 0, 4, 2] {
                                let ks = sq(kf, ohr);
                                if p.board[ks as usize].is_none() {
                                    p.board[ks as usize] = Some((opp, Kind::K));
                                    ok = true;
                                    break;
                                }
                            }
                            if !ok {
                                continue;
                            }
                        }
                        if blocker > 0 {
                            let bf = [1, 2, 3, 5, 6, 4][blocker - 1];
                            if bf == 4 {
                                continue;
                            }
                            let bs = sq(bf, hr);
                            if p.board[bs as usize].is_some() {
                                continue;
                            }
                            let bc = if (asq as usize + blocker) % 2 == 0 { me } else { opp };
                            p.board[bs as usize] = Some((bc, Kind::N));
                        }
                        // the same placement with the attacker's side to move: its legal moves include
                        // captures of the home rooks (rights must be lost) and checks through the path
                        let mut q = p.clone();
                        q.turn = opp;
                        try_push(out, "castle-attackers", p, vec![]);
                        if blocker <= 1 {
                            try_push(out, "castle-attacker-to-move", q, vec![]);
                        }
                    }
                }
            }
        }
    }
    // history variants: king / rook moves away and back (rights must stay lost), rook captured
    let base = Position::from_fen("r3k2r/8/8/8/8/8/8/R3K2R w KQkq - 0 1").unwrap();
    let u = |s: &str| Mv::parse_uci(s).unwrap();
    for seq in [
        vec!["e1e2", "e8e7", "e2e1", "e7e8"],
        vec!["a1a2", "a8a7", "a2a1", "a7a8"],
        vec!["h1h2", "h8h7", "h2h1", "h7h8"],
        vec!["a1a8"],
        vec!["h1h8"],
        vec!["a1a8", "h8h1"],
        vec!["e1d1", "e8f8", "d1e1", "f8e8"],
        vec!["e1g1", "e8c8"],
        vec!["e1c1", "e8g8"],
        vec!["a1b1", "h8g8", "b1a1", "g8h8"],
    ] {
        let moves: Vec<Mv> = seq.iter().map(|s| u(s)).collect();
        for k in 1..=moves.len() {
            try_push(out, "castle-history", base.clone(), moves[..k].to_vec());
        }
    }
}

/// promotion family: every file, push and both captures, with the enemy king placed so that the
/// promotion gives check / discovered check, under pin, as evasion.
pub fn promo_family(out: &mut Vec<Crafted>) {
    for me in [Col::W, Col::B] {
        let opp = me.flip();
        let r7 = if me == Col::W { 6 } else { 1 };
        let r8 = me.promo_rank();
        for f in 0..8i32 {
            for cap_mask in 0..4u32 {
                for block in [false, true] {
                    for oksq in 0..64u8 {
                        // own king: a corner, next to the pawn, behind it on the file, and on the four
                        // diagonal squares behind it (pawn pinned along a capture diagonal)
                        let mut mks = vec![sq(0, me.home_rank()), sq(7, r7), sq(f, (r7 - 3 * me.fwd()).clamp(0, 7))];
                        if oksq % 4 == 0 {
                            for (dx, k) in [(-1, 1), (1, 1), (-1, 2), (1, 2)] {
                                let (x, y) = (f + dx * k, r7 - me.fwd() * k);
                                if on_board(x, y) {
                                    mks.push(sq(x, y));
                                }
                            }
                        }
                        for mk in mks {
                            let mut p = Position::empty();
                            p.turn = me;
                            p.board[sq(f, r7) as usize] = Some((me, Kind::P));
                            if block {
                                p.board[sq(f, r8) as usize] = Some((opp, Kind::N));
                            }
                            let kinds = [Kind::R, Kind::B, Kind::Q];
                            if cap_mask & 1 != 0 && f > 0 {
                                p.board[sq(f - 1, r8) as usize] = Some((opp, kinds[(oksq as usize / 4) % 3]));
                            }
                            if cap_mask & 2 != 0 && f < 7 {
                                p.board[sq(f + 1, r8) as usize] = Some((opp, kinds[(oksq as usize / 4 + 1) % 3]));
                            }
                            if p.board[oksq as usize].is_some() || p.board[mk as usize].is_some() || mk == oksq {
                                continue;
                            }
                            p.board[oksq as usize] = Some((opp, Kind::K));
                            p.board[mk as usize] = Some((me, Kind::K));
                            // a rook behind the pawn for discovered effects in a third of the cases
                            if (oksq as i32 + f) % 3 == 0 {
                                let bs = sq(f, (r7 - 2 * me.fwd()).clamp(0, 7));
                                if p.board[bs as usize].is_none() {
                                    p.board[bs as usize] = Some((me, Kind::R));
                                }
                            }
                            try_push(out, "promotion", p, vec![]);
                        }
                    }
                }
            }
        }
    }
}

/// check-evasion family: single checks by each piece kind with interposition / capture options,
/// double checks, pinned would-be defenders.
pub fn evasion_family(rng: &mut Rng, n: usize, out: &mut Vec<Crafted>) {
    let mut made = 0;
    let mut tries = 0;
    while made < n && tries < n * 60 {
        tries += 1;
        let mut p = Position::empty();
        p.turn = if rng.chance(1, 2) { Col::W } else { Col::B };
        let me = p.turn;
        let opp = me.flip();
        let ks = rng.below(64) as u8;
        p.board[ks as usize] = Some((me, Kind::K));
        // checker(s)
        let nchk = if rng.chance(1, 4) { 2 } else { 1 };
        for _ in 0..nchk {
            let k = *rng.pick(&[Kind::Q, Kind::R, Kind::B, Kind::N, Kind::P]);
            place_random(&mut p, rng, opp, k, if k == Kind::P { 1..=6 } else { 0..=7 });
        }
        place_random(&mut p, rng, opp, Kind::K, 0..=7);
        for _ in 0..rng.range(1, 6) {
            let k = *rng.pick(&[Kind::Q, Kind::R, Kind::B, Kind::N, Kind::P, Kind::P]);
            place_random(&mut p, rng, me, k, if k == Kind::P { 1..=6 } else { 0..=7 });
        }
        for _ in 0..rng.range(0, 3) {
            let k = *rng.pick(&[Kind::Q, Kind::R, Kind::B]);
            place_random(&mut p, rng, opp, k, 0..=7);
        }
        if p.chess_root_ok().is_ok() && p.in_check() {
            made += 1;
            out.push(Crafted { family: "evasion", pre: p, moves: vec![] });
        }
    }
}


/// Squares from which a piece of kind `k` and colour `c` would attack `target` on an otherwise
/// empty board.
fn squares_attacking(target: Sq, k: Kind, c: Col) -> Vec<Sq> {
    let mut out = Vec::new();
    for s in 0..64u8 {
        if s == target {
            continue;
        }
        let mut p = Position::empty();
        p.board[s as usize] = Some((c, k));
        if p.attacked(target, c) {
            out.push(s);
        }
    }
    out
}

/// Double checks, with defenders of the checked side placed so that they attack a checker or can
/// step between a checker and the king: the moves that would be fine in a single check and are
/// illegal here ("in a double check only the king moves").
pub fn double_check_family(rng: &mut Rng, n: usize, out: &mut Vec<Crafted>) {
    let mut made = 0;
    let mut tries = 0;
    while made < n && tries < n * 200 {
        tries += 1;
        let mut p = Position::empty();
        p.turn = if rng.chance(1, 2) { Col::W } else { Col::B };
        let me = p.turn;
        let opp = me.flip();
        let ks = rng.below(64) as u8;
        p.board[ks as usize] = Some((me, Kind::K));
        let mut checkers: Vec<Sq> = Vec::new();
        for _ in 0..2 {
            let k = *rng.pick(&[Kind::Q, Kind::R, Kind::B, Kind::N, Kind::N, Kind::R, Kind::B, Kind::P]);
            let cands: Vec<Sq> = squares_attacking(ks, k, opp).into_iter().filter(|s| p.board[*s as usize].is_none() && (k != Kind::P || (1..=6).contains(&rank_of(*s)))).collect();
            if cands.is_empty() {
                continue;
            }
            let s = *rng.pick(&cands);
            p.board[s as usize] = Some((opp, k));
            checkers.push(s);
        }
        if checkers.len() != 2 {
            continue;
        }
        place_random(&mut p, rng, opp, Kind::K, 0..=7);
        // defenders aimed at the checkers
        for &cs in &checkers {
            for _ in 0..rng.range(1, 2) {
                let k = *rng.pick(&[Kind::Q, Kind::R, Kind::B, Kind::N, Kind::P, Kind::P]);
                let cands: Vec<Sq> = squares_attacking(cs, k, me).into_iter().filter(|s| p.board[*s as usize].is_none() && (k != Kind::P || (1..=6).contains(&rank_of(*s)))).collect();
                if !cands.is_empty() {
                    let s = *rng.pick(&cands);
                    p.board[s as usize] = Some((me, k));
                }
            }
        }
        for _ in 0..rng.range(0, 3) {
            let k = *rng.pick(&[Kind::Q, Kind::R, Kind::B, Kind::N, Kind::P]);
            place_random(&mut p, rng, me, k, if k == Kind::P { 1..=6 } else { 0..=7 });
        }
        if p.chess_root_ok().is_ok() && p.checkers().len() == 2 {
            made += 1;
            out.push(Crafted { family: "double-check", pre: p, moves: vec![] });
        }
    }
}

/// Classic mates in one (also used by the engine monitors).
pub const CLASSIC_MATES: &[&str] = &[
    "6k1/5ppp/8/8/8/8/8/R3K3 w Q - 0 1",
    "r1bqkb1r/pppp1ppp/2n2n2/4p2Q/2B1P3/8/PPPP1PPP/RNB1K1NR w KQkq - 4 4",
    "6rk/6pp/7N/8/8/8/8/6K1 w - - 0 1",
    "k7/8/1K6/8/8/8/8/7R w - - 0 1",
    "7k/8/5K2/8/8/8/8/6Q1 w - - 0 1",
    "5rk1/5ppp/8/8/8/8/1B6/K5R1 w - - 0 1",
    "k7/2P5/1K6/8/8/8/8/8 w - - 0 1",
    "7k/4P1pp/8/8/8/8/8/K4R2 w - - 0 1",
    "8/8/8/8/8/6k1/4r3/r3K2R w K - 0 1",
    "r3k3/8/8/8/8/8/1R6/4K2k b q - 0 1",
    "4k3/8/8/8/8/8/5PPP/r5K1 b - - 0 1",
    "3k4/8/3K4/8/8/8/8/R7 w - - 0 1",
    "k1K5/8/8/8/8/8/8/1R6 w - - 0 1",
    "kbK5/pp6/1P6/8/8/8/8/R7 w - - 0 1",
    "2k5/8/2K5/8/8/8/8/3R3R w - - 0 1",
    "7k/5p1p/5PpP/6P1/8/8/8/K1B5 w - - 0 1",
    "5rk1/2q2p1p/8/8/6N1/8/1B6/K5R1 w - - 0 1",
    "6k1/5ppp/8/8/8/8/8/R5K1 w - - 0 1",
];

/// A position one ply earlier: the side NOT to move in `p` un-makes a quiet king step, so that `p`
/// is reached after one legal move.  Used to put a special move (promotion, e.p., castling) at ply 2
/// of a search instead of at the root.
pub fn predecessor(rng: &mut Rng, p: &Position) -> Option<(Position, Mv)> {
    let mover = p.turn.flip();
    let k = p.king_sq(mover)?;
    let mut cands: Vec<Sq> = Vec::new();
    for (df, dr) in [(1, 0), (1, 1), (0, 1), (-1, 1), (-1, 0), (-1, -1), (0, -1), (1, -1)] {
        let (f, r) = (file_of(k) + df, rank_of(k) + dr);
        if on_board(f, r) && p.board[sq(f, r) as usize].is_none() {
            cands.push(sq(f, r));
        }
    }
    rng.shuffle(&mut cands);
    for s in cands {
        let mut q = p.clone();
        q.board[k as usize] = None;
        q.board[s as usize] = Some((mover, Kind::K));
        q.turn = mover;
        q.ep = None;
        q.half = p.half.saturating_sub(1);
        if mover == Col::B {
            q.full = p.full.saturating_sub(1);
        }
        // the un-moved king must not have had castling rights it could not have lost
        let m = Mv::new(s, k);
        if q.chess_root_ok().is_ok() && q.is_legal(m) && q.apply(m).identity() == p.identity() {
            return Some((q, m));
        }
    }
    None
}

/// Greedy randomized "mate maker": given a valid position `p` and a legal move `m` that gives check,
/// add pieces of the mover's colour (or remove non-king defenders) until `m` checkmates, keeping the
/// position valid (`valid` is the caller's validity predicate, e.g. pre-position + double step for
/// e.p. cases) and `m` legal.  Returns the modified position.
pub fn mate_maker(rng: &mut Rng, p: &Position, m: Mv, valid: &dyn Fn(&Position) -> bool) -> Option<Position> {
    let me = p.turn;
    let opp = me.flip();
    let mut cur = p.clone();
    if !cur.is_legal(m) || !cur.apply(m).in_check() {
        return None;
    }
    for _round in 0..40 {
        let q = cur.apply(m);
        let replies = q.legal_moves();
        if replies.is_empty() {
            return Some(cur);
        }
        let r = *rng.pick(&replies);
        let (_, rk) = q.board[r.from as usize].unwrap();
        let mut done = false;
        if rk != Kind::K && r.from != m.to {
            // a defender captures the checker or interposes: remove it (if it exists before m too)
            if cur.board[r.from as usize] == Some((opp, rk)) {
                let mut t = cur.clone();
                t.board[r.from as usize] = None;
                if valid(&t) && t.is_legal(m) && t.apply(m).in_check() {
                    cur = t;
                    done = true;
                }
            }
        }
        if !done {
            // cover the square the reply goes to (flight square, or the checker's square)
            for _try in 0..60 {
                let kind = *rng.pick(&[Kind::N, Kind::R, Kind::B, Kind::Q, Kind::P, Kind::N, Kind::R]);
                let s = rng.below(64) as u8;
                if cur.board[s as usize].is_some() || s == m.to || s == r.to {
                    continue;
                }
                if kind == Kind::P && (rank_of(s) == 0 || rank_of(s) == 7) {
                    continue;
                }
                if cur.count(me) >= 16 {
                    break;
                }
                let mut t = cur.clone();
                t.board[s as usize] = Some((me, kind));
                if !valid(&t) || !t.is_legal(m) {
                    continue;
                }
                let tq = t.apply(m);
                if !tq.in_check() || tq.legal_moves().contains(&r) {
                    continue;
                }
                if tq.legal_moves().len() < replies.len() {
                    cur = t;
                    done = true;
                    break;
                }
            }
        }
        if !done {
            return None;
        }
    }
    None
}

/// Mates in one delivered by an en-passant capture (direct pawn check on a king standing next to the
/// victim pawn's origin square), optionally with the capturer pinned along its capture diagonal;
/// also mates by castling and by each promotion piece.  All validated by the model.
pub fn special_mate_family(rng: &mut Rng, tries: usize, out: &mut Vec<Crafted>) {
    // e.p. mates
    for t in 0..tries {
        let victim_col = if t % 2 == 0 { Col::B } else { Col::W };
        let me = victim_col.flip();
        let f = rng.range(0, 7) as i32;
        let start_r = victim_col.pawn_start_rank();
        let land_r = start_r + 2 * victim_col.fwd();
        let target_r = start_r + victim_col.fwd();
        let side = if rng.chance(1, 2) { -1 } else { 1 };
        let cf = f + side; // capturer file
        let kf = f + if rng.chance(1, 2) { -1 } else { 1 }; // victim king file (attacked by the pawn on the target)
        if !on_board(cf, land_r) || !on_board(kf, start_r) {
            continue;
        }
        let mut p = Position::empty();
        p.turn = victim_col;
        p.board[sq(f, start_r) as usize] = Some((victim_col, Kind::P));
        p.board[sq(cf, land_r) as usize] = Some((me, Kind::P));
        p.board[sq(kf, start_r) as usize] = Some((victim_col, Kind::K));
        // capturer's king: either behind the capturer on the capture diagonal (pinned variant) or random
        let pinned = t % 3 == 0;
        let ds = Mv::new(sq(f, start_r), sq(f, land_r));
        if pinned {
            // capture direction from (cf, land_r) to (f, target_r)
            let (dx, dy) = (f - cf, target_r - land_r);
            let (kx, ky) = (cf - dx * (1 + rng.below(2) as i32), land_r - dy * (1 + rng.below(2) as i32));
            let (bx, by) = (f + dx * (1 + rng.below(2) as i32), target_r + dy * (1 + rng.below(2) as i32));
            if !on_board(kx, ky) || !on_board(bx, by) || (kx - cf).abs() != (ky - land_r).abs() || (bx - f).abs() != (by - target_r).abs() {
                continue;
            }
            if p.board[sq(kx, ky) as usize].is_some() || p.board[sq(bx, by) as usize].is_some() {
                continue;
            }
            p.board[sq(kx, ky) as usize] = Some((me, Kind::K));
            p.board[sq(bx, by) as usize] = Some((victim_col, if rng.chance(1, 2) { Kind::B } else { Kind::Q }));
        } else {
            let ks = rng.below(64) as u8;
            if p.board[ks as usize].is_some() {
                continue;
            }
            p.board[ks as usize] = Some((me, Kind::K));
        }
        if p.chess_root_ok().is_err() || !p.is_legal(ds) {
            continue;
        }
        let post = p.apply(ds);
        let epm = Mv::new(sq(cf, land_r), sq(f, target_r));
        if !post.is_legal(epm) || !post.apply(epm).in_check() {
            continue;
        }
        let valid = |x: &Position| -> bool {
            // x is a post position: derive the position before the double step
            let mut q = x.clone();
            q.board[ds.to as usize] = None;
            q.board[ds.from as usize] = Some((victim_col, Kind::P));
            q.turn = victim_col;
            q.ep = None;
            q.chess_root_ok().is_ok() && q.is_legal(ds) && q.apply(ds) == *x
        };
        if let Some(mated) = mate_maker(rng, &post, epm, &valid) {
            let mut pre = mated.clone();
            pre.board[ds.to as usize] = None;
            pre.board[ds.from as usize] = Some((victim_col, Kind::P));
            pre.turn = victim_col;
            pre.ep = None;
            try_push(out, if pinned { "ep-mate-pinned-capturer" } else { "ep-mate" }, pre, vec![ds]);
        }
    }
    // castling mates and promotion mates
    for t in 0..tries {
        let me = if t % 2 == 0 { Col::W } else { Col::B };
        let opp = me.flip();
        let hr = me.home_rank();
        let mut p = Position::empty();
        p.turn = me;
        let kind_of_case = t % 3;
        let m: Mv;
        if kind_of_case == 0 {
            // castling: the rook lands on f1/d1 and checks a king on that file
            let kingside = rng.chance(1, 2);
            p.board[sq(4, hr) as usize] = Some((me, Kind::K));
            p.board[sq(if kingside { 7 } else { 0 }, hr) as usize] = Some((me, Kind::R));
            p.castle[if me == Col::W { if kingside { WK } else { WQ } } else if kingside { BK } else { BQ }] = true;
            let rf = if kingside { 5 } else { 3 };
            let kr = (hr - rng.range(2, 7) as i32).abs();
            if !on_board(rf, kr) {
                continue;
            }
            p.board[sq(rf, kr) as usize] = Some((opp, Kind::K));
            m = Mv::new(sq(4, hr), sq(if kingside { 6 } else { 2 }, hr));
        } else {
            // promotion: pawn on the 7th, enemy king somewhere, promote to a random piece
            let f = rng.range(0, 7) as i32;
            let r7 = if me == Col::W { 6 } else { 1 };
            p.board[sq(f, r7) as usize] = Some((me, Kind::P));
            let ks = rng.below(64) as u8;
            let oks = rng.below(64) as u8;
            if ks == oks || p.board[ks as usize].is_some() || p.board[oks as usize].is_some() {
                continue;
            }
            p.board[ks as usize] = Some((me, Kind::K));
            p.board[oks as usize] = Some((opp, Kind::K));
            let piece = *rng.pick(&PROMOS);
            m = Mv { from: sq(f, r7), to: sq(f, me.promo_rank()), promo: Some(piece) };
        }
        if p.chess_root_ok().is_err() || !p.is_legal(m) || !p.apply(m).in_check() {
            continue;
        }
        let valid = |x: &Position| x.chess_root_ok().is_ok();
        if let Some(mated) = mate_maker(rng, &p, m, &valid) {
            let fam = match (kind_of_case, m.promo) {
                (0, _) => "castle-mate",
                (_, Some(Kind::N)) => "promotion-mate-knight",
                (_, Some(Kind::B)) => "promotion-mate-bishop",
                (_, Some(Kind::R)) => "promotion-mate-rook",
                _ => "promotion-mate-queen",
            };
            out.push(Crafted { family: fam, pre: mated, moves: vec![] });
        }
    }
}

/// "Hopeless" positions for the search monitors: the side to move has legal moves, but EVERY one of
/// them allows (a) an immediate checkmating reply, or (b) an immediate stalemating reply.  A search
/// that rejects all root moves in such a position ends up committing "no move".
pub fn hopeless_positions(rng: &mut Rng, tries: usize, want: usize) -> Vec<(&'static str, Position)> {
    let mut out = Vec::new();
    // (c) every legal move is a capture and every one of them is answered by a mating capture:
    //     back-rank patterns (checker captured by a defender, recapture mates), shifted and mirrored
    for shift in -4..=1i32 {
        for defender_file in 0..8i32 {
            for heavy in [Kind::R, Kind::Q] {
                for colour_flip in [false, true] {
                    // white king g1 behind f2 g2 h2, black heavy pieces on e1 (checking) and e8
                    let (kf, cf) = (6 + shift, 4 + shift);
                    if !(0..8).contains(&kf) || !(0..8).contains(&cf) || !(0..8).contains(&(kf - 1)) || defender_file == cf || (defender_file - kf).abs() <= 0 {
                        continue;
                    }
                    let mut p = Position::empty();
                    p.turn = Col::W;
                    p.board[sq(kf, 0) as usize] = Some((Col::W, Kind::K));
                    for df in [-1, 0, 1] {
                        if on_board(kf + df, 1) {
                            p.board[sq(kf + df, 1) as usize] = Some((Col::W, Kind::P));
                        }
                    }
                    p.board[sq(cf, 0) as usize] = Some((Col::B, heavy));
                    p.board[sq(cf, 7) as usize] = Some((Col::B, Kind::R));
                    if p.board[sq(defender_file, 0) as usize].is_some() {
                        continue;
                    }
                    p.board[sq(defender_file, 0) as usize] = Some((Col::W, Kind::R));
                    let bk = sq(if cf < 4 { 7 } else { 0 }, 7);
                    if p.board[bk as usize].is_some() {
                        continue;
                    }
                    p.board[bk as usize] = Some((Col::B, Kind::K));
                    p.half = 3;
                    p.full = 30;
                    let q = if colour_flip { p.mirror() } else { p };
                    if q.chess_root_ok().is_err() {
                        continue;
                    }
                    let legal = q.legal_moves();
                    if legal.is_empty() {
                        continue;
                    }
                    let all = legal.iter().all(|m| {
                        q.is_capture(*m) && {
                            let z = q.apply(*m);
                            z.legal_moves().iter().any(|r| z.is_capture(*r) && {
                                let y = z.apply(*r);
                                y.in_check() && y.legal_moves().is_empty()
                            })
                        }
                    });
                    if all {
                        out.push(("every-move-is-a-capture-answered-by-a-mating-capture", q));
                    }
                }
            }
        }
    }
    let want = want + out.len();
    for t in 0..tries {
        if out.len() >= want {
            break;
        }
        let mut p = Position::empty();
        let loser = if t % 2 == 0 { Col::W } else { Col::B };
        let winner = loser.flip();
        p.turn = loser;
        let stalemate_kind = t % 3 == 0;
        // loser: king near an edge (+ up to two blocked-ish pawns); winner: king + 1-3 pieces
        let edge = |rng: &mut Rng| -> Sq {
            let a = rng.below(8) as i32;
            match rng.below(4) {
                0 => sq(a, 0),
                1 => sq(a, 7),
                2 => sq(0, a),
                _ => sq(7, a),
            }
        };
        let lk = edge(rng);
        p.board[lk as usize] = Some((loser, Kind::K));
        let wk = rng.below(64) as u8;
        if p.board[wk as usize].is_some() {
            continue;
        }
        p.board[wk as usize] = Some((winner, Kind::K));
        let n_w = if stalemate_kind { rng.range(1, 2) } else { rng.range(1, 3) };
        for _ in 0..n_w {
            let k = if stalemate_kind { *rng.pick(&[Kind::B, Kind::N, Kind::Q, Kind::R, Kind::P]) } else { *rng.pick(&[Kind::Q, Kind::R, Kind::R, Kind::Q, Kind::B, Kind::N]) };
            place_random(&mut p, rng, winner, k, if k == Kind::P { 1..=6 } else { 0..=7 });
        }
        for _ in 0..rng.range(0, 2) {
            place_random(&mut p, rng, loser, Kind::P, 1..=6);
        }
        if p.chess_root_ok().is_err() {
            continue;
        }
        let legal = p.legal_moves();
        if legal.is_empty() || legal.len() > 8 {
            continue;
        }
        let all = legal.iter().all(|m| {
            let q = p.apply(*m);
            q.legal_moves().iter().any(|r| {
                let z = q.apply(*r);
                let none = z.legal_moves().is_empty();
                none && (z.in_check() != stalemate_kind)
            })
        });
        if all {
            out.push((if stalemate_kind { "every-move-allows-stalemate" } else { "every-move-allows-mate" }, p));
        }
    }
    out
}

/// A pinned slider captures its pinner with mate - enumerated over EVERY (king, pinner, pinned
/// square) geometry (a wrong `line` entry or pin mask loses exactly one such move); the rest of the
/// position is completed by the mate maker, a few attempts per geometry.
pub fn pinned_capture_mate_family(rng: &mut Rng, shard: u64, nshards: u64, out: &mut Vec<Crafted>) {
    let mut idx = 0u64;
    for me in [Col::W, Col::B] {
        let opp = me.flip();
        for k in 0..64u8 {
            for sq_s in 0..64u8 {
                if !aligned(k, sq_s) {
                    continue;
                }
                let diagonal = file_of(k) != file_of(sq_s) && rank_of(k) != rank_of(sq_s);
                for b in between_squares(k, sq_s) {
                    idx += 1;
                    if idx % nshards != shard {
                        continue;
                    }
                    // every geometry must get its mate whatever the seed: the enemy king squares are
                    // tried systematically (from a seeded starting point), both kinds of pinned piece,
                    // until the mate maker succeeds (at most 16 calls of it per geometry)
                    let start = rng.below(64) as u8;
                    let mut maker_calls = 0;
                    'geometry: for step in 0..64u8 {
                        let ek = (start + step) % 64;
                        for own in [Kind::Q, if diagonal { Kind::B } else { Kind::R }] {
                            let pinner = if (step + own as u8) % 2 == 0 { Kind::Q } else if diagonal { Kind::B } else { Kind::R };
                            let mut p = Position::empty();
                            p.turn = me;
                            p.board[k as usize] = Some((me, Kind::K));
                            p.board[b as usize] = Some((me, own));
                            p.board[sq_s as usize] = Some((opp, pinner));
                            if p.board[ek as usize].is_some() || !aligned(sq_s, ek) {
                                continue;
                            }
                            let ek_diag = file_of(ek) != file_of(sq_s) && rank_of(ek) != rank_of(sq_s);
                            if (own == Kind::B && !ek_diag) || (own == Kind::R && ek_diag) {
                                continue;
                            }
                            p.board[ek as usize] = Some((opp, Kind::K));
                            let m = Mv::new(b, sq_s);
                            if p.chess_root_ok().is_err() || !p.is_legal(m) || !p.apply(m).in_check() {
                                continue;
                            }
                            let valid = |x: &Position| x.chess_root_ok().is_ok();
                            maker_calls += 1;
                            if let Some(mated) = mate_maker(rng, &p, m, &valid) {
                                // the capture must be the ONLY mate: with a second mate available the search
                                // may rightly play that one, and a lost capture would go unnoticed
                                if crate::tags::mating_moves(&mated) == vec![m] {
                                    out.push(Crafted { family: "pinned-piece-captures-pinner-mate", pre: mated, moves: vec![] });
                                    break 'geometry;
                                }
                            }
                            if maker_calls >= 48 {
                                break 'geometry;
                            }
                        }
                    }
                }
            }
        }
    }
}


/// Near-mates: for every (king, checking slider square, square between them) geometry a position in
/// which a slider move gives a check that would be mate but for ONE defence - a knight interposing on
/// that between square. A generator that loses the square (a `between` / `line` table slip, a wrong
/// check mask) sees no reply, and the search then announces a mate in one that is not there.
/// Built with the mate maker (mate first, then the interposing knight is added and the model confirms
/// that the only replies are interpositions on that square).
pub fn interposition_near_mate_family(rng: &mut Rng, shard: u64, nshards: u64, out: &mut Vec<Crafted>) {
    let mut idx = 0u64;
    for me in [Col::W, Col::B] {
        let opp = me.flip();
        // `opp` king on k is checked by a slider of `me` arriving on s; b lies between
        for k in 0..64u8 {
            for s in 0..64u8 {
                if !aligned(k, s) {
                    continue;
                }
                let betw = between_squares(k, s);
                let diagonal = file_of(k) != file_of(s) && rank_of(k) != rank_of(s);
                for &b in &betw {
                    idx += 1;
                    if idx % nshards != shard {
                        continue;
                    }
                    let start = rng.below(64) as u8;
                    let mut maker_calls = 0;
                    'geometry: for step in 0..64u8 {
                        // where the slider comes from: a square from which it reaches s without already checking
                        let from = (start + step) % 64;
                        if from == s || from == k || betw.contains(&from) || !aligned(from, s) || aligned(from, k) && between_squares(from, k).is_empty() {
                            continue;
                        }
                        let from_diag = file_of(from) != file_of(s) && rank_of(from) != rank_of(s);
                        for sk in [Kind::Q, if diagonal { Kind::B } else { Kind::R }] {
                            if (sk == Kind::B && !from_diag) || (sk == Kind::R && from_diag) {
                                continue;
                            }
                            let mut p = Position::empty();
                            p.turn = me;
                            p.board[k as usize] = Some((opp, Kind::K));
                            p.board[from as usize] = Some((me, sk));
                            // own king somewhere harmless
                            let mut placed = false;
                            for kk in [sq(7, 0), sq(0, 7), sq(0, 0), sq(7, 7), sq(3, 0), sq(4, 7)] {
                                if p.board[kk as usize].is_none() && kk != s && kk != b && !betw.contains(&kk) {
                                    let mut t = p.clone();
                                    t.board[kk as usize] = Some((me, Kind::K));
                                    if t.chess_root_ok().is_ok() {
                                        p = t;
                                        placed = true;
                                        break;
                                    }
                                }
                            }
                            if !placed {
                                continue;
                            }
                            let m = Mv::new(from, s);
                            if !p.is_legal(m) || !p.apply(m).in_check() || p.in_check() {
                                continue;
                            }
                            let valid = |x: &Position| x.chess_root_ok().is_ok();
                            maker_calls += 1;
                            if let Some(mated) = mate_maker(rng, &p, m, &valid) {
                                // add the interposer: a knight a knight's move away from b, or (a knight next
                                // to a long line reaches two of its squares) a pawn that steps onto b
                                let back = if opp == Col::W { -1 } else { 1 };
                                let mut cands: Vec<(i32, i32, Kind)> = [(1, 2), (2, 1), (-1, 2), (-2, 1), (1, -2), (2, -1), (-1, -2), (-2, -1)].iter().map(|(a, c)| (*a, *c, Kind::N)).collect();
                                cands.push((0, back, Kind::P));
                                if rank_of(b) == (if opp == Col::W { 3 } else { 4 }) {
                                    cands.push((0, 2 * back, Kind::P));
                                }
                                // a slider on the line through b perpendicular to the checked line meets that
                                // line in b only (and its other line runs parallel to it, so it cannot take on s)
                                let (dx, dy) = ((file_of(s) - file_of(k)).signum(), (rank_of(s) - rank_of(k)).signum());
                                if diagonal {
                                    cands.push((dx, -dy, Kind::B));
                                    cands.push((-dx, dy, Kind::B));
                                } else {
                                    cands.push((dy, dx, Kind::R));
                                    cands.push((-dy, -dx, Kind::R));
                                }
                                for (df, dr, ik) in cands {
                                    let (f, r) = (file_of(b) + df, rank_of(b) + dr);
                                    if !on_board(f, r) || (ik == Kind::P && (r == 0 || r == 7)) {
                                        continue;
                                    }
                                    let ns = sq(f, r);
                                    if mated.board[ns as usize].is_some() || ns == s {
                                        continue;
                                    }
                                    let mut t = mated.clone();
                                    t.board[ns as usize] = Some((opp, ik));
                                    if t.chess_root_ok().is_err() || !t.is_legal(m) {
                                        continue;
                                    }
                                    let after = t.apply(m);
                                    let replies = after.legal_moves();
                                    // and no real mate in one anywhere: otherwise the search may announce that one
                                    if after.in_check() && !replies.is_empty() && replies.iter().all(|r| r.to == b) && crate::tags::mating_moves(&t).is_empty() {
                                        out.push(Crafted { family: "interposition-near-mate", pre: t, moves: vec![] });
                                        break 'geometry;
                                    }
                                }
                            }
                            if maker_calls >= 40 {
                                break 'geometry;
                            }
                        }
                    }
                }
            }
        }
    }
}

/// Mates in one by a capture after which only the kings and exactly two minor pieces remain (the
/// boundary of "insufficient material").  The list was enumerated with this model by the developer
/// tool mon-core/src/bin/gen-small-mates.rs; every entry is re-validated here (a capture that mates
/// must exist), both colours.
pub fn small_material_mates() -> Vec<Position> {
    let mut out = Vec::new();
    for line in include_str!("small_material_mates.txt").lines() {
        let Ok(p) = Position::from_fen(line.trim()) else { continue };
        for q in [p.clone(), p.mirror()] {
            if q.chess_root_ok().is_ok() && crate::tags::mating_moves(&q).iter().any(|m| q.is_capture(*m)) {
                out.push(q);
            }
        }
    }
    out
}

/// terminal classification when the 50-move counter is at / beyond its limit: mates in one played
/// with the half-move clock at 98, 99, 100 and 150 (mate takes precedence over the clock), and
/// non-mating quiet moves reaching exactly 100.
pub fn clock_terminal_family(out: &mut Vec<Crafted>) {
    for fen in CLASSIC_MATES {
        let Ok(base) = Position::from_fen(fen) else { continue };
        for p0 in [base.clone(), base.mirror()] {
            if p0.chess_root_ok().is_err() {
                continue;
            }
            let mates = crate::tags::mating_moves(&p0);
            let legal = p0.legal_moves();
            for half in [98u32, 99, 100, 150] {
                let mut p = p0.clone();
                p.half = half;
                p.full = 80;
                for m in &mates {
                    try_push(out, "clock-terminal", p.clone(), vec![*m]);
                }
                // two quiet non-mating moves as well
                for m in legal.iter().filter(|m| !mates.contains(m) && !p.is_capture(**m)).take(2) {
                    try_push(out, "clock-terminal", p.clone(), vec![*m]);
                }
            }
        }
    }
}

/// extremal lists (C07): many mobile pieces plus two e.p. capturers; many queens.
pub fn extremal_family(out: &mut Vec<Crafted>) {
    let u = |s: &str| Mv::parse_uci(s).unwrap();
    // 16 white men all mobile, two of them pawns that may both capture e.p. after ...d7d5
    for (fen, mv) in [
        // 8 mobile pawns + 8 mobile pieces + two e.p. entries = 18 move-list entries (the capacity)
        ("4k3/3p4/8/2P1P3/PP3PPP/3P4/8/RNBQKBNR b - - 0 1", "d7d5"),
        ("rnbqkbnr/8/3p4/pp3ppp/2p1p3/8/3P4/4K3 w - - 0 1", "d2d4"),
        ("4k3/6p1/8/5P1P/PPPPP3/8/8/RNBQKBNR b - - 0 1", "g7g5"),
        ("4k3/3p4/8/2P1P3/8/1B1Q1B2/N1PKP1NP/R6R b - - 0 1", "d7d5"),
        ("4k3/3p4/8/2P1P3/7P/1B1Q1B2/N1PKP1N1/R6R b - - 0 1", "d7d5"),
        ("r6r/n1pkp1np/1b1q1b2/8/2p1p3/8/3P4/4K3 w - - 0 1", "d2d4"),
        ("4k3/3p4/8/2P1P3/P6P/1B1Q1B2/N2K2N1/R2RR3 b - - 0 1", "d7d5"),
        ("4k3/6p1/8/PP1PPP1P/8/RNBQ1BNR/8/4K3 b - - 0 1", "g7g5"),
        ("4k3/1p6/8/P1PPPPPP/8/RNBQ1BNR/8/4K3 b - - 0 1", "b7b5"),
    ] {
        let p = Position::from_fen(fen).unwrap();
        try_push(out, "extremal", p, vec![u(mv)]);
    }
    for fen in [
        "R6R/3Q4/1Q4Q1/4Q3/2Q4Q/Q4Q2/pp1Q4/kBNN1KB1 w - - 0 1",
        "3Q4/1Q4Q1/4Q3/2Q4R/Q4Q2/3Q4/1Q4Rp/1K1BBNNk w - - 0 1",
        "Q2Q2Q1/8/Q2Q2Q1/8/Q2Q2Q1/8/4K3/7k w - - 0 1",
        "q2q2q1/8/q2q2q1/8/q2q2q1/8/4k3/7K b - - 0 1",
        "1P1P1P1P/P1P1P1P1/8/8/8/8/8/k6K w - - 0 1",
    ] {
        if let Ok(p) = Position::from_fen(fen) {
            if p.c06_ok().is_ok() {
                out.push(Crafted { family: "extremal", pre: p, moves: vec![] });
            }
        }
    }
}

// --------------------------------------------------------------------------- move choice

/// Biased choice among the model's legal moves: favours the rare move kinds and, optionally,
/// reversible shuffles (the exact reverse of the mover's previous move) to create repetitions.
pub fn choose_move(rng: &mut Rng, p: &Position, legal: &[Mv], prev_own: Option<Mv>, shuffle_bias: u64) -> Mv {
    debug_assert!(!legal.is_empty());
    let probe_checks = rng.chance(1, 3);
    let weights: Vec<u64> = legal
        .iter()
        .map(|m| {
            let mut w = 2u64;
            let k = p.board[m.from as usize].unwrap().1;
            if p.is_ep_capture(*m) {
                w += 60;
            } else if p.board[m.to as usize].is_some() {
                w += 5;
            }
            if p.is_castle(*m) {
                w += 40;
            }
            if m.promo.is_some() {
                w += 10;
            }
            if p.is_double_step(*m) {
                w += 6;
                // a double step next to an enemy pawn creates an e.p. opportunity
                for df in [-1, 1] {
                    let f = file_of(m.to) + df;
                    if on_board(f, rank_of(m.to))
                        && p.board[sq(f, rank_of(m.to)) as usize] == Some((p.turn.flip(), Kind::P))
                    {
                        w += 40;
                    }
                }
            }
            if k == Kind::K || k == Kind::R {
                w += 1;
            }
            if let Some(pm) = prev_own {
                if pm.to == m.from && pm.from == m.to && m.promo.is_none() {
                    w += shuffle_bias;
                }
            }
            if probe_checks {
                let n = p.apply(*m);
                if n.in_check() {
                    w += 8;
                }
            }
            w
        })
        .collect();
    legal[rng.weighted(&weights)]
}
