#!/bin/bash
# Developer tool (not a registered check): which lines of the repository do the monitors' quick workloads execute?
#   lib/coverage.sh [props...]      default: all 20
# Runs the quick checks in the scratch laboratory (seeded/mutlab.sh setup; /tmp/mut) with the 'chk' flavour rebuilt by
# the nightly compiler with -Cinstrument-coverage, merges the profiles and prints per-file line coverage of the
# repository crates plus the uncovered lines of the anchored source files into /tmp/mut/coverage/.
set -u
LAB=/tmp/mut
/verif/seeded/mutlab.sh setup
COV=$LAB/coverage; rm -rf $COV; mkdir -p $COV/raw
props=${@:-C01 C02 C03 C04 C05 C06 C07 C08 C09 C10 C11 C12 C13 C14 C15 C16 C17 C18 C19 C20}
for p in $props; do
  VERIF_DEV_ROOT=$LAB VERIF_COVERAGE=$COV/raw /verif/check $p --tier quick --scale ${COVSCALE:-0.3} > $COV/$p.log 2>&1
  echo "$p rc=$? $(tail -1 $COV/$p.log)"
done
BIN=$(dirname $(find ~/.rustup/toolchains/nightly*/lib/rustlib -name llvm-profdata | head -1))
$BIN/llvm-profdata merge -sparse $COV/raw/*.profraw -o $COV/all.profdata
objs=""
for b in $LAB/target/cov/checked/mon-core $LAB/target/cov/checked/mon-tables $LAB/target/cov/checked/mon-plugin $LAB/target/cov/checked/mon-trace $LAB/target/plugin-cov/release/libchess_bot.so; do
  [ -e $b ] && objs="$objs -object $b"
done
$BIN/llvm-cov report -instr-profile $COV/all.profdata $objs --ignore-filename-regex='(\.cargo|/rustc/|/harness/|rustlib)' > $COV/report.txt 2>$COV/report.err
$BIN/llvm-cov show -instr-profile $COV/all.profdata $objs --ignore-filename-regex='(\.cargo|/rustc/|/harness/|rustlib)' --show-line-counts-or-regions > $COV/show.txt 2>>$COV/report.err
cat $COV/report.txt
