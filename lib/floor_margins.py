#!/usr/bin/env python3
"""Developer aid: after a run, print for each property the smallest observed/floor ratio (from evidence)."""
import json, sys, os
sys.path.insert(0, os.path.dirname(os.path.abspath(__file__)))
from props import PROPS
evid = os.environ.get("VERIF_EVID", os.path.join(os.path.dirname(os.path.abspath(__file__)), "..", "evidence"))
for p in sorted(PROPS):
    f = os.path.join(evid, p + ".json")
    if not os.path.exists(f):
        continue
    j = json.load(open(f))
    cov = j["coverage"]
    floor = PROPS[p].get("floor", {})
    fl = floor.get(j["tier"], floor.get("any", {}))
    worst = None
    for k, m in fl.items():
        have = cov["evaluations"] if k == "evaluations" else cov["observed_tags"].get(k, cov["counters"].get(k, 0))
        r = have / m if m else 99
        if worst is None or r < worst[0]:
            worst = (r, k, have, m)
    print(p, j["tier"], "seed", j["seed"], "worst floor margin: %.2fx %s (%s/%s)" % worst if worst else "no floors")
