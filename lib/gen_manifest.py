#!/usr/bin/env python3
"""Regenerates /verif/MANIFEST.json from lib/props.py (claimed checks) and lib/manifest_text.py."""
import json, os, sys
HERE = os.path.dirname(os.path.abspath(__file__))
sys.path.insert(0, HERE)
from props import PROPS
from manifest_text import TEXT, NOT_APPLICABLE, HOOK_COMMITS

ids = [json.loads(l)["id"] for l in open(os.path.join(HERE, "..", "properties.jsonl"))]
checks = []
for pid in ids:
    if pid not in PROPS:
        continue
    t = TEXT[pid]
    checks.append(dict(
        property_id=pid,
        quick_cmd=f"./check {pid} --tier quick",
        thorough_cmd=f"./check {pid} --tier thorough",
        evidence_file=f"/verif/evidence/{pid}.json",
        replay_cmd_template=f"./check {pid} --replay {{path}}",
        engine="runtime-monitors",
        level_claimed=dict(category="exploration", text=t["level"], design_ref=t["design_ref"]),
        level_note=t["note"],
        technique=t["technique"],
    ))
na = [dict(property_id=p, reason=r) for p, r in NOT_APPLICABLE.items() if p not in PROPS]
for pid in ids:
    if pid not in PROPS and pid not in NOT_APPLICABLE:
        na.append(dict(property_id=pid, reason="monitor not built yet (work in progress); no claim is made for this property"))
m = dict(
    version=1,
    setup_cmd="./check setup",
    hooks=dict(
        guard="cargo feature `verif-hooks` of chess-engine (off by default)",
        enable="the harness crates depend on chess-engine with features = [\"verif-hooks\"]; nothing else is guarded",
        baseline_off_cmd="cd /repo && cargo test --workspace --no-fail-fast --offline",
        source_commits=HOOK_COMMITS,
        add_only=True,
    ),
    engines=[dict(name="runtime-monitors", path="/verif/check",
                  serves_properties=[c["property_id"] for c in checks],
                  kind_free_text="python supervisor + Rust monitor binaries (harness/) run against /repo built from its working "
                                 "tree in several flavours: checked (debug-assertions+overflow-checks), shipped release, Miri, "
                                 "AddressSanitizer, ThreadSanitizer, valgrind memcheck; oracles = independent reference model, "
                                 "definitional recomputation, history checkers")],
    checks=checks,
    not_applicable=na,
    notes="Runtime monitoring only: every verdict is 'held on the executions observed'; see DESIGN.md. Exit 2 + INCONCLUSIVE line = "
          "build failure / watchdog / monitor observed too little (never reported as a violation).",
)
json.dump(m, open(os.path.join(HERE, "..", "MANIFEST.json"), "w"), indent=1)
print("claimed:", [c["property_id"] for c in checks], "not_applicable:", [x["property_id"] for x in na])
