HOOK_COMMITS = []
NOT_APPLICABLE = {}
_pos = ("held on every execution observed; reach = crafted families that construct the named rare interactions + "
        "seeded random histories + corpus; not a proof over all reachable positions")
TEXT = {
 "C01": dict(level="Reference-model monitor: on 10^5-10^7 positions reached by playing moves through the real API the generated move multiset and is_legal() are compared with an independent rules model, in the checked and the shipped build. " + _pos,
             design_ref="DESIGN.md 3/C01", note="trusted base: harness/refmodel (validated at run time against published perft counts); sampling of histories",
             technique="runtime monitoring: differential oracle (independent reference move generator) over crafted + random histories, checked and release builds"),
 "C02": dict(level="Reference-model monitor: every legal move of every visited position is applied through the checked operations and the successor compared field by field with the model; illegal triples must be refused without side effect. " + _pos,
             design_ref="DESIGN.md 3/C02", note="trusted base: refmodel::apply; rights/e.p. read from the Debug rendering",
             technique="runtime monitoring: successor-state oracle + partition invariant at the quiescent point after each move"),
 "C03": dict(level="Monitor comparing in_check/state with the model and every moved board with the same position rebuilt from scratch (all observable renderings, including the Debug view of cached pin/check sets). " + _pos,
             design_ref="DESIGN.md 3/C03", note="trusted base: refmodel; scratch route uses the FEN parser and the builder",
             technique="runtime monitoring: incremental-vs-from-scratch differential oracle on played histories"),
 "C04": dict(level="Monitor on played histories: incremental hash vs from-scratch hash, Hash impl feed, clock independence, history independence via an identity table and transposition pairs; complete enumeration of the 794 keys. " + _pos,
             design_ref="DESIGN.md 3/C04", note="collisions between different positions are not judged; identity table is per worker",
             technique="runtime monitoring: purity/equality oracle over histories + exhaustive key-table scan"),
 "C05": dict(level="Monitor on reached boards and on all field variants of their placements: write/parse and parse/write round trips byte for byte against the model's canonical FEN; constructors compared. " + _pos,
             design_ref="DESIGN.md 3/C05", note="trusted base: refmodel::to_fen as the canonical form; clocks limited to 0..9999 as the property states",
             technique="runtime monitoring: round-trip oracle against an independent canonical FEN writer"),
 "C06": dict(level="Parser/builder monitor: 10^6-10^8 hostile inputs (mutated FENs, one-condition-broken near misses, random bytes, builder sequences) must neither panic nor yield a board violating the listed acceptance conditions (judged by the model on the board read back), and canonical FENs of reached positions must be accepted; checked and release builds. Sampling, not all byte strings.",
             design_ref="DESIGN.md 3/C06", note="trusted base: refmodel attack test and acceptance predicate; panics caught with catch_unwind, aborts by the supervisor via the write-ahead journal",
             technique="runtime monitoring: grammar-aware mutation + semantic near-miss fuzzing with a post-parse invariant oracle"),
 "C10": dict(level="History monitor: 10^5-10^7 seeded and patterned operation histories on the real move iterator are executed in lock-step with a set model of remaining moves and mask; any size report, yield, or final coverage that differs is a violation (shrunk to a minimal op list). Sampling of positions x op sequences, bounded length.",
             design_ref="DESIGN.md 3/C10 + Appendix A.2", note="trusted base: refmodel legal set + 30-line set model of the iterator contract",
             technique="runtime monitoring: operation-history checker against an executable sequential model (set of remaining moves)"),
}
