"""Per-property configuration of the runtime monitors (jobs, floors, rules, assumptions)."""
import os, json, subprocess

MODEL_ASSUMPTION = ("reference model (harness/refmodel: mailbox board, ray walking, make-move-then-test-king) is "
                    "the oracle; it is re-validated against published perft counts at the start of every worker")
CHK_ASSUMPTION = ("'chk' flavour = release + debug-assertions + overflow-checks (-Ctarget-cpu=native): repo "
                  "debug_assert!s, std ub_checks and arithmetic overflow trap; 'ship' = the shipped release config")


def core_jobs(prop, ctx, split=(12, 4), extra=None):
    """Shards of a mon-core monitor: `split[0]` shards in the chk flavour, `split[1]` in ship."""
    jobs = []
    total = split[0] + split[1]
    dirs = {"chk": ctx["build"]("chk", "mon-core"), "ship": ctx["build"]("ship", "mon-core")}
    idx = 0
    for fl, n in (("chk", split[0]), ("ship", split[1])):
        for _ in range(n):
            argv = [os.path.join(dirs[fl], "mon-core"), prop, "--tier", ctx["tier"], "--seed", str(ctx["seed"]),
                    "--shard", str(idx), "--nshards", str(total), "--scale", str(ctx["scale"]),
                    "--out", "{out}", "--journal", "{journal}"] + (extra or [])
            jobs.append(dict(name=f"{prop}-{fl}-{idx}", argv=argv, flavour=fl))
            idx += 1
    return jobs


def core_replay(prop):
    def f(ctx):
        d = ctx["build"]("chk", "mon-core")
        payload = json.load(open(ctx["replay"]))
        fl = payload.get("flavour", "chk")
        if fl == "ship":
            d = ctx["build"]("ship", "mon-core")
        r = subprocess.run([os.path.join(d, "mon-core"), prop, "--replay", ctx["replay"]])
        return r.returncode
    return f


PROPS = {}

PROPS["C01"] = dict(
    jobs=lambda ctx: core_jobs("C01", ctx),
    replay=core_replay("C01"),
    rule=("each evaluation = one position reached by playing moves through the real checked API from a root "
          "(start position, corpus, crafted e.p./castling/promotion/evasion/extremal families, seeded random valid "
          "placements), at which Board::legals() (as a multiset) and is_legal() probes (model-legal moves, near-miss "
          "triples, periodically all 20480 triples) are compared with the reference model's legal set; "
          "distinct_nontrivial = distinct position identities (placement, side, rights, e.p. file) carrying at least "
          "one feature tag (check, pin, e.p. available/refused, castling right, promotion, mate, ...), exact union "
          "over all workers"),
    floor=dict(any={"evaluations": 20000, "ep-refused-rank-exposure": 20, "ep-legal-by-pinned-capturer": 5,
                    "ep-legal-capturer-reshields-victim-line": 5, "castle-refused-path-attacked": 50,
                    "castle-queenside-legal-with-b-file-attacked": 5, "double-check": 50,
                    "promotion-capture-available": 50, "pinned-piece-moves-along-pin": 50, "mate": 10}),
    watchdog=dict(quick=900, thorough=7200),
    assumptions=[MODEL_ASSUMPTION, CHK_ASSUMPTION,
                 "positions with pawns on ranks 1/8 and impossible e.p. markers are excluded (not chess)"],
)

PROPS["C02"] = dict(
    jobs=lambda ctx: core_jobs("C02", ctx),
    replay=core_replay("C02"),
    rule=("each evaluation = one reached position at which EVERY legal move is applied with move_new (sampled: also "
          "move_mut and move_into, which must agree) and the successor is compared field by field with the model "
          "(64 squares, side, four rights, e.p. file, both clocks; the 8 bitboards must partition), and illegal "
          "(from,to,promotion) triples (near misses, periodically all 20480) are offered to the three checked "
          "operations, which must refuse and leave board/output untouched; distinct_nontrivial = distinct "
          "(position identity, move) pairs whose successor was compared"),
    floor=dict(any={"evaluations": 5000, "successors-compared": 100000, "mv-ep-capture": 200, "mv-castle-kingside": 20,
                    "mv-castle-queenside": 20, "mv-promo-capture": 100, "mv-captures-home-rook-with-right": 5,
                    "mv-double-step": 500, "illegal-offers": 100000}),
    watchdog=dict(quick=900, thorough=7200),
    assumptions=[MODEL_ASSUMPTION, CHK_ASSUMPTION,
                 "castling rights and e.p. file of the real board are read from its Debug rendering"],
)

PROPS["C03"] = dict(
    jobs=lambda ctx: core_jobs("C03", ctx),
    replay=core_replay("C03"),
    rule=("each evaluation = one reached position: in_check() and state() vs the model, and the moved board vs the "
          "same position rebuilt from scratch (parser; builder when no rights) in legal moves, in_check, state, hash, "
          "==, Display, Debug (renders the cached pinned/checker sets), {:#?}, clocks; distinct_nontrivial = distinct "
          "tagged position identities"),
    floor=dict(any={"evaluations": 20000, "status:Checkmate": 10, "status:Draw": 10, "status:Check": 500,
                    "double-check": 30, "mv-discovered-check-by-ep": 1, "mv-direct-check-castling-rook": 1,
                    "mv-check-by-promoted-piece": 20, "mv-discovered-check-by-king": 3}),
    watchdog=dict(quick=900, thorough=7200),
    assumptions=[MODEL_ASSUMPTION, CHK_ASSUMPTION,
                 "the scratch route goes through the FEN parser / builder, which C05/C06 monitor separately"],
)

PROPS["C04"] = dict(
    jobs=lambda ctx: core_jobs("C04", ctx),
    replay=core_replay("C04"),
    rule=("each evaluation = one reached position: Hash must feed exactly zobrist(); hash after moves vs hash of the "
          "position parsed / built from scratch; clock variants must hash and compare equal; a per-worker table "
          "identity -> first hash detects history dependence on re-visits; seeded transposition pairs (a x b y vs "
          "b y a x) must be equal and hash equal; all 794 key-table entries enumerated for zero/duplicates; "
          "distinct_nontrivial = distinct position identities reached by at least one move"),
    floor=dict(any={"evaluations": 20000, "key-table-entries": 794, "identity-revisits": 100,
                    "transposition-pairs": 1000, "clock-variant-comparisons": 2000}),
    watchdog=dict(quick=900, thorough=7200),
    assumptions=[MODEL_ASSUMPTION, CHK_ASSUMPTION, "hash collisions between different positions are not judged"],
)

PROPS["C05"] = dict(
    jobs=lambda ctx: core_jobs("C05", ctx),
    replay=core_replay("C05"),
    rule=("each evaluation = one reached board: to_string() vs the model's canonical FEN byte for byte; "
          "parse(to_string()) must equal the board (==, clocks, hash, Debug, legal moves); parse(canonical).to_string() "
          "must reproduce the text; builder vs parser; standard() vs parser vs model; periodically all field variants "
          "of the placement (16 rights subsets consistent with it x side to move x every possible e.p. file x clocks "
          "from {0,1,9,10,99,100,101,999,1000,9998,9999} and random); distinct_nontrivial = distinct canonical FEN "
          "strings checked"),
    floor=dict(any={"evaluations": 20000, "ep-white-to-move": 200, "ep-black-to-move": 200,
                    "fen-field-variants": 10000, "variant-ep-white-to-move": 50, "variant-ep-black-to-move": 50}),
    watchdog=dict(quick=900, thorough=7200),
    assumptions=[MODEL_ASSUMPTION, CHK_ASSUMPTION,
                 "the builder route only covers positions without castling rights (the rights type is private)"],
)

PROPS["C06"] = dict(
    jobs=lambda ctx: core_jobs("C06", ctx),
    replay=core_replay("C06"),
    rule=("each evaluation = one byte string given to parse_fen (or one builder op sequence given to build()): it must "
          "not panic/abort, Display of an error must not panic, and an accepted board, read back through the public API, "
          "must have one king per side, <=16 men per side, side not to move not attacked (model attack test), rights "
          "only with K+R at home, e.p. marker only on an empty square behind an enemy pawn on its double-step rank; "
          "inputs = canonical FENs of positions reached by legal play (must be ACCEPTED when the root is the start "
          "position or a corpus position), grammar-aware mutations of them, semantic near-misses that break exactly one "
          "acceptance condition, e.p.-field text variants, uniformly random bytes / alphabet strings of length 0-120, "
          "fixed edge inputs, random builder sequences; distinct_nontrivial = distinct inputs (byte strings / op lists)"),
    floor=dict(any={"evaluations": 200000, "accepted": 5000, "rejected": 100000, "builder-accepted": 100, "fromstr-agreement-checks": 100000,
                    "near-miss:right-without-h1-rook:unplayable-rejected": 20,
                    "near-miss:opponent-in-check-by-knight:unplayable-rejected": 100,
                    "near-miss:ep-target-occupied:unplayable-rejected": 100,
                    "near-miss:seventeen-men:unplayable-rejected": 100,
                    "err:TrailingBytes": 10, "err:FileOutOfBounds": 10, "err:MissingWhitespace": 10}),
    watchdog=dict(quick=900, thorough=7200),
    assumptions=[MODEL_ASSUMPTION, CHK_ASSUMPTION,
                 "'all byte strings' is sampled; a rejection is an alarm only for canonical FENs of positions reached by "
                 "legal play from the start position or a corpus position (clock fields <= 9999)"],
)

PROPS["C10"] = dict(
    jobs=lambda ctx: core_jobs("C10", ctx),
    replay=core_replay("C10"),
    rule=("each evaluation = one history of iterator operations (next, len, is_empty, size_hint, count, set_mask, "
          "remove, remove_move, clone-and-continue-both, drain) executed on Board::legals() / legals_masked(M0) of a "
          "reached position in lock-step with a set model (remaining moves R, mask M): sizes must equal |R n M|, next() "
          "must yield an unyielded, unremoved legal move inside M iff one exists, and every history ends by widening "
          "the mask to the whole universe and draining, which must yield every remaining move exactly once; families: "
          "the engine's staged pattern with every legal move as 'previous best', the capture-extension pattern, plain "
          "iteration with size checks at every step, seeded random op lists (<=40 ops + a closing partition by files / "
          "ranks / complement pair), 64-single-square partitions; distinct_nontrivial = distinct (position identity, "
          "initial mask, op list) triples"),
    floor=dict(any={"evaluations": 100000, "op:set_mask": 100000, "op:remove": 10000, "op:remove_move": 50000,
                    "op:clone": 10000, "position-with-promotion-entries": 1000, "position-with-ep-entry": 200,
                    "histories:engine-staged-pattern": 20000, "histories:partition-64-squares": 1000}),
    watchdog=dict(quick=900, thorough=7200),
    assumptions=[MODEL_ASSUMPTION, CHK_ASSUMPTION,
                 "remove_move's boolean result and the order of yielded moves are not judged; on a legals_masked(M0) "
                 "iterator only sub-masks of M0 are issued"],
)

HOOK_ASSUMPTION = ("which deepening passes completed is read from the verif-hooks event log of chess-engine "
                   "(PassStart / Stage / PassCommit), compiled in only for the harness")

PROPS["C11"] = dict(
    jobs=lambda ctx: core_jobs("C11", ctx),
    replay=core_replay("C11"),
    rule=("each evaluation = one Engine::search run on one position with a counting Timeout that first reports expiry "
          "at its k-th poll (monotone afterwards): the run must not panic, must return None or a move in the model's "
          "legal set, Some when legal moves exist and PassCommit{0} was observed, None when no legal move exists, and "
          "must return within (deepest pass + 48) polls after expiry; per position k is swept over every value in "
          "[0, T_2+2] when the second pass commits within 3000 polls, else over 0..64, +-2 around every commit and root "
          "stage boundary learnt from a long run, and seeded values; positions = corpus, seeded random placements of 7 "
          "themes with short walks, terminal and clock>=99 positions with budgets far beyond 65536 polls; sub-strata "
          "with a non-empty ThreeFold history and positional evaluation; distinct_nontrivial = distinct positions "
          "searched (each with its whole k sweep)"),
    floor=dict(any={"evaluations": 20000, "k-sweep-exhaustive-to-T2": 20, "terminal-position": 2, "traced-searches": 500, "traced-log-bytes": 1000000, "engine-reuse-searches": 2000, "wall-clock-limit-searches": 300,
                    "long-run-on-trivial-passes": 5, "non-empty-threefold-history": 10,
                    "expiry-phase:pass0:captures:in-recursion": 50, "expiry-phase:pass0:quiets:root-level": 50,
                    "expiry-phase:pass1:prev-best:in-recursion": 50, "expiry-phase:pass2:quiets:in-recursion": 50,
                    "passes-completed:0": 500, "passes-completed:3": 50}),
    watchdog=dict(quick=1200, thorough=10800),
    assumptions=[MODEL_ASSUMPTION, CHK_ASSUMPTION, HOOK_ASSUMPTION,
                 "the wall-clock DurationTimeout itself is replaced by the logical counting timeout"],
)

PROPS["C12"] = dict(
    jobs=lambda ctx: core_jobs("C12", ctx),
    replay=core_replay("C12"),
    rule=("each evaluation = one position searched with a poll budget large enough for pass 0 (runs where PassCommit{0} "
          "was not observed are counted, not judged): if the model finds >=1 checkmating move the result must be one "
          "of them with a mate-in-one score for the mover; every result and every committed pass (also under seeded "
          "early expiry) that carries a mate-in-one score for the mover must carry a move that checkmates in the model, "
          "and a mate-in-one score for the side not to move is never acceptable; positions = mating-net / sparse / "
          "promotion / other random placements with short walks steered towards mates, 16 classic mates and their "
          "mirrors, corpus; default and positional engines; distinct_nontrivial = distinct positions that have a mate "
          "in one"),
    floor=dict(any={"evaluations": 3000, "mate-in-one-positions-judged": 150, "mating-moves:1": 50, "mating-moves:>1": 50, "engine-reuse-mate-lines": 200, "special-mate:pinned-piece-captures-pinner-mate": 4000, "special-mate:interposition-near-mate": 5000,
                    "mating-capture": 20, "near-miss:check-but-no-mate": 500, "mate-in-one-claims": 150}),
    watchdog=dict(quick=1200, thorough=10800),
    assumptions=[MODEL_ASSUMPTION, CHK_ASSUMPTION, HOOK_ASSUMPTION],
)

PROPS["C13"] = dict(
    jobs=lambda ctx: core_jobs("C13", ctx),
    replay=core_replay("C13"),
    rule=("each evaluation = one pair (position, colour mirror), both searched by a default Engine with empty history "
          "and the same poll budget; for every depth committed by both (PassCommit events, at most 16) the mirror's "
          "score must be the negation (Raw(x)<->Raw(-x), WhiteMateIn(n)<->BlackMateIn(n), Min<->Max); positions whose "
          "side to move has a promotion move at the root are skipped as the property states; best moves are not "
          "compared; distinct_nontrivial = distinct positions with at least one common depth"),
    floor=dict(any={"evaluations": 2000, "depth-comparisons": 6000, "score-kind:raw": 2000, "score-kind:mate": 50, "engine-reuse-pairs": 500,
                    "common-depths:3": 50}),
    watchdog=dict(quick=1200, thorough=10800),
    assumptions=[MODEL_ASSUMPTION, CHK_ASSUMPTION, HOOK_ASSUMPTION],
)

PROPS["C14"] = dict(
    # plus one Miri shard (every pair of the boundary set through every operator): a comparison that reads
    # payload bytes of the payload-less sentinels is silent everywhere else
    jobs=lambda ctx: core_jobs("C14", ctx, split=(8, 8)) + miri_jobs("C14", "mon-core", ctx, 1),
    replay=core_replay("C14"),
    exhaustive=True,
    exhaustive_note=("complete over S x S (pairs) and S x S x S (transitivity) for the 87-element score set S (both "
                     "sentinels, mate distances {0,1,2,3,255,256,32767,32768,65534,65535}+12 seeded, raw "
                     "{MIN,MIN+1,-1,0,1,MAX-1,MAX,...}+30 seeded) and over all 2 x 65536 mate scores x S; the 2^32 raw "
                     "values are sampled"),
    rule=("each evaluation = one ordered pair (a,b) of scores: cmp must equal the comparison of reference keys "
          "(Min=-inf, BlackMateIn(x)=-2^40+x, Raw(v)=v, WhiteMateIn(x)=2^40-x, Max=+inf), partial_cmp == Some(cmp), "
          "== iff Equal, antisymmetry, the four operators, max/min; all triples over S for transitivity; "
          "sort/binary_search of seeded vectors against key order; distinct_nontrivial = distinct pairs over S"),
    floor=dict(any={"pairs": 7569, "triples": 658503, "mate-distance-sweep-pairs": 11000000, "sorted-vectors": 1000}),
    watchdog=dict(quick=600, thorough=3600),
    assumptions=[CHK_ASSUMPTION, "the reference key function written in the harness is the definition of "
                 "game-theoretic preference"],
)


# ----------------------------------------------------------------------------- mon-tables / sanitizer flavours

HARNESS = os.path.join(os.environ.get("VERIF_DEV_ROOT") or os.path.dirname(os.path.dirname(os.path.abspath(__file__))), "harness")


def bin_job(prop, pkg, fl, dirpath, ctx, idx, total, extra=None, name=None, wrapper=None, env=None):
    argv = (wrapper or []) + [os.path.join(dirpath, pkg), prop, "--tier", ctx["tier"], "--seed", str(ctx["seed"]),
                              "--shard", str(idx), "--nshards", str(total), "--scale", str(ctx["scale"]),
                              "--out", "{out}", "--journal", "{journal}"] + (extra or [])
    return dict(name=name or f"{prop}-{fl}-{idx}", argv=argv, flavour=fl, env=env or {})


def miri_jobs(prop, pkg, ctx, shards, extra=None, release=True, miriflags=""):
    """Shards interpreted by Miri (release profile: the unchecked fast paths are what is interpreted)."""
    tdir = os.path.join(ctx["TARGET"], "miri")
    env = dict(MIRIFLAGS=("-Zmiri-disable-isolation " + miriflags).strip(), CARGO_NET_OFFLINE="true", RUSTFLAGS="")
    base = ["cargo", "+nightly", "miri", "run", "--offline", "-q", "-p", pkg, "--bin", pkg, "--target-dir", tdir] + (["--release"] if release else [])
    # warm-up build (serial) so that the parallel shards do not fight over the build lock
    e = dict(os.environ); e.update(env)
    r = subprocess.run(base + ["--", "noop"], cwd=HARNESS, env=e, stdout=subprocess.PIPE, stderr=subprocess.STDOUT, text=True)
    if "error: could not compile" in r.stdout or "error[E" in r.stdout:
        raise RuntimeError("miri build failed:\n" + r.stdout[-3000:])
    jobs = []
    fl = "miri" if release else "miri-dev"
    for i in range(shards):
        argv = base + ["--", prop, "--tier", ctx["tier"], "--seed", str(ctx["seed"]), "--shard", str(i), "--nshards", str(shards),
                       "--small", "--out", "{out}", "--journal", "{journal}"] + (extra or [])
        jobs.append(dict(name=f"{prop}-{fl}-{i}", argv=argv, flavour=fl, env=env, cwd=HARNESS))
    return jobs


ASAN_ENV = dict(ASAN_OPTIONS="halt_on_error=1:abort_on_error=1:detect_leaks=0:symbolize=1")


def tables_jobs(prop, ctx, quick=("chk", "ship"), shards_per=8, thorough_extra=("asan", "miri"), miri_shards=16, vg=False,
                quick_miri=0):
    jobs = []
    flavours = list(quick)
    # every flavour enumerates the whole domain on its own (shards are per flavour)
    for fl in flavours:
        d = ctx["build"](fl, "mon-tables")
        for idx in range(shards_per):
            jobs.append(bin_job(prop, "mon-tables", fl, d, ctx, idx, shards_per))
    if ctx["tier"] == "thorough":
        if "asan" in thorough_extra:
            d = ctx["build"]("asan", "mon-tables")
            for i in range(8):
                jobs.append(bin_job(prop, "mon-tables", "asan", d, ctx, i, 8, env=ASAN_ENV))
        if "miri" in thorough_extra:
            jobs += miri_jobs(prop, "mon-tables", ctx, miri_shards)
        if vg:
            d = ctx["build"]("vgbin", "mon-tables")
            for i in range(4):
                jobs.append(bin_job(prop, "mon-tables", "vg", d, ctx, i, 4, extra=["--small"],
                                    wrapper=["valgrind", "--quiet", "--error-exitcode=97", "--tool=memcheck"]))
    elif quick_miri:
        # a few Miri shards (small workload) already in the quick tier, where they cost well under a minute
        jobs += miri_jobs(prop, "mon-tables", ctx, quick_miri)
    return jobs


def tables_replay(prop):
    def f(ctx):
        d = ctx["build"]("chk", "mon-tables")
        return subprocess.run([os.path.join(d, "mon-tables"), prop, "--replay", ctx["replay"]]).returncode
    return f


TABLES_MERGER = lambda ctx=None: None

PROPS["C08"] = dict(
    jobs=lambda ctx: tables_jobs("C08", ctx, quick=("chk", "ship", "generic"), shards_per=8),
    replay=tables_replay("C08"),
    exhaustive=True,
    exhaustive_note=("complete over every subset of each square's own full rook rays (<= 2^14 per square) and bishop rays "
                     "(<= 2^13), which determines the answer; independence from off-ray squares is sampled (5 paddings "
                     "per subset + 200 off-ray-only + 3000 random occupancies per square and piece); every flavour "
                     "(chk, ship, generic) enumerates the whole domain on its own"),
    rule=("each evaluation = one rook_moves/bishop_moves lookup compared with an integer (file,rank) ray walker (up to and "
          "including the first blocker); the index-in-range clause is decided by the bounds check / debug_assert of the "
          "chk and generic flavours (thorough: ASan red zones and Miri on the masked-relevant-bit subsets); "
          "distinct_nontrivial = distinct (piece, square, non-empty on-ray subset)"),
    floor=dict(any={"rook-on-ray-subsets": 3 * 1048576, "bishop-on-ray-subsets": 3 * 71168, "off-ray-padding-lookups": 12000000,
                    "random-occupancies": 900000}),
    watchdog=dict(quick=600, thorough=7200),
    assumptions=[CHK_ASSUMPTION, "oracle = square-by-square ray walk written in the harness (shares nothing with the "
                 "repo's shift-based generator)"],
)

PROPS["C09"] = dict(
    jobs=lambda ctx: tables_jobs("C09", ctx, shards_per=1, thorough_extra=("asan", "miri"), miri_shards=1),
    replay=tables_replay("C09"),
    exhaustive=True,
    exhaustive_note="64 squares, 4096 ordered pairs, 2 colours, every occupancy of the <=4 relevant pawn squares x 3 paddings, all constants",
    rule=("each evaluation = one table entry / constant / helper result compared with its definition computed from integer "
          "(file,rank) arithmetic (no wrap-around by construction), and the same for the table generator's public "
          "functions; distinct_nontrivial = distinct squares + ordered square pairs enumerated"),
    floor=dict(any={"between": 4096, "line": 4096, "distance": 4096, "knight_moves": 64, "king_moves": 64,
                    "pawn_quiets(occupancy)": 2000, "generator.between": 4096, "ADJACENT_FILES": 8}),
    watchdog=dict(quick=300, thorough=3600),
    assumptions=[CHK_ASSUMPTION, "definitions are the ones written in harness/mon-tables/src/c09.rs"],
)

PROPS["C16"] = dict(
    jobs=lambda ctx: tables_jobs("C16", ctx, shards_per=8, thorough_extra=("miri",), miri_shards=8, quick_miri=2),
    replay=tables_replay("C16"),
    exhaustive=True,
    exhaustive_note="all 20480 moves + absent move, all 2 x 65536 mate distances; raw scores at the extremes and 10^5 seeded",
    rule=("each evaluation = one conversion round trip: ChessMove -> StableChessMove -> ChessMove, or "
          "EvaluatedMove::new(optional move, score) read back with chess_move()/score(); distinct_nontrivial = distinct "
          "moves round-tripped (exhaustive domains are dealt across flavours and shards)"),
    floor=dict(any={"moves-round-tripped": 2 * 20480, "mate-distances-checked": 2 * 131072, "raw-scores-checked": 100000,
                    "absent-move-checks": 10}),
    watchdog=dict(quick=300, thorough=3600),
    assumptions=[CHK_ASSUMPTION],
)

PROPS["C17"] = dict(
    jobs=lambda ctx: tables_jobs("C17", ctx, shards_per=1, thorough_extra=("asan", "miri"), miri_shards=1),
    replay=tables_replay("C17"),
    exhaustive=True,
    exhaustive_note="every node of the embedded book, i.e. every root-to-leaf line, walked depth-first with real board and model in lock-step",
    rule=("each evaluation = one book node: its move (without promotion choice) must be legal in the model and accepted "
          "by move_new on the board reached from Board::standard() along its path; every child handle is iterated "
          "independently with a step cap and a depth cap; table reads are bounds-checked by debug_assert (chk), ASan "
          "and Miri (thorough); distinct_nontrivial = distinct positions reached along book lines"),
    floor=dict(any={"book-nodes": 20000, "book-leaves": 5000, "traversal-method-comparisons": 100000}),
    watchdog=dict(quick=300, thorough=3600),
    assumptions=[MODEL_ASSUMPTION, CHK_ASSUMPTION],
)

PROPS["C18"] = dict(
    jobs=lambda ctx: tables_jobs("C18", ctx, quick=("chk", "ship", "generic"), shards_per=5, thorough_extra=("miri",), miri_shards=16),
    replay=tables_replay("C18"),
    rule=("each evaluation = one bitboard (or pair) on which every operation is compared with a [bool;64] set model: "
          "constructors, membership, with/cleared/set/clear, | & ^ - ! and assign forms, Sub<Pos>, four shifts, "
          "flip_ranks, count/any/none/all/some, pop, iteration order with size_hint at every step, nth(n) for n in 0..=70 "
          "and huge n (value = skip(n).next(); remainder after Some), FromIterator, From<Option>; boards = empty, full, 64 "
          "singletons, all 2016 pairs, files, ranks, diagonals, patterns, seeded boards of 7 densities; flavours chk "
          "(BMI2 nth with overflow traps), generic (default nth), ship (BMI2 without traps); distinct_nontrivial = distinct boards"),
    floor=dict(any={"two-square-boards": 3 * 2016, "special-boards": 92, "seeded-boards": 300000, "nth-checks": 3000000,
                    "special-pairs": 3 * 8000, "collections-of-boards": 100000, "collections-of-squares": 2000,
                    "collections-from-64-element-arrays": 9}),
    watchdog=dict(quick=600, thorough=7200),
    assumptions=[CHK_ASSUMPTION, "complete for single- and two-square boards, files, ranks, empty, full; other boards sampled "
                 "(every operation acts square-wise)", "after nth returned None the iterator must be exhausted (judged since the build phase: nth consumes what it skips)"],
)

PROPS["C19"] = dict(
    jobs=lambda ctx: tables_jobs("C19", ctx, shards_per=8, thorough_extra=("miri",), miri_shards=16),
    replay=tables_replay("C19"),
    exhaustive=True,
    exhaustive_note=("64 squares / 8 files / 8 ranks consistency, all 256 one-byte and 65536 two-byte strings through every "
                     "parser, all 15^4 four-byte and 15^5 five-byte strings over {a,h,A,H,i,`,@,1,8,0,9,-,space,NUL,0xE1}, all "
                     "4096 non-promotion moves in both spellings and cases, all op sequences up to length 6 over 9 iterator "
                     "ops for the five double-ended enum iterators; longer strings / sequences seeded"),
    rule=("each evaluation = one byte string through File/Rank/Piece/PromotionPiece/Pos/ChessMove parsers (bytes and FromStr "
          "forms) compared with the intended language written directly in the harness, or one square/file/rank "
          "consistency + text round-trip check, or one iterator op sequence run against a slice iterator (including 70000 "
          "polls past the end from either side, which crosses 8- and 16-bit cursor wrap), or one valid spelling with a "
          "character replaced by a wide code point whose low byte aliases it; "
          "distinct_nontrivial = distinct strings / squares / op sequences"),
    floor=dict(any={"two-byte-strings": 2 * 65536, "one-byte-strings": 512, "four-byte-move-strings": 2 * 50625,
                    "five-byte-move-strings": 2 * 759375, "move-text-round-trips": 2 * 4096, "iterator-op-sequences": 4000000,
                    "wide-alias-strings": 60000, "polls-past-the-end": 20000000}),
    watchdog=dict(quick=600, thorough=7200),
    assumptions=[CHK_ASSUMPTION],
)


def plugin_jobs(ctx):
    jobs = []
    plan = [("chk", 12), ("ship", 4)]
    total = sum(n for _, n in plan)
    idx = 0
    for fl, n in plan:
        d = ctx["build"](fl, "mon-plugin")
        so = ctx["build_plugin"](fl)
        for _ in range(n):
            jobs.append(bin_job("C15", "mon-plugin", fl, d, ctx, idx, total, extra=["--plugin", so]))
            idx += 1
    if ctx["tier"] == "thorough":
        d = ctx["build"]("vgbin", "mon-plugin")
        so = ctx["build_plugin"]("vgbin")
        for i in range(4):
            jobs.append(bin_job("C15", "mon-plugin", "vg", d, ctx, i, 4, extra=["--plugin", so, "--small"],
                                wrapper=["valgrind", "--quiet", "--error-exitcode=97", "--tool=memcheck"]))
    return jobs


def plugin_replay(ctx):
    d = ctx["build"]("chk", "mon-plugin")
    so = ctx["build_plugin"]("chk")
    return subprocess.run([os.path.join(d, "mon-plugin"), "C15", "--plugin", so, "--replay", ctx["replay"]]).returncode


PROPS["C15"] = dict(
    jobs=plugin_jobs,
    replay=plugin_replay,
    rule=("each evaluation = one call history (set_board / make_move legal and illegal / evaluate with a tiny poll budget / "
          "board) driven through chess_api::ChessEngine on the loaded libchess_bot.so: is_valid must equal model legality, "
          "board() after every call must equal the reference position (squares, side, rights, e.p., clocks, Display) and be "
          "unchanged by an invalid move, is_three_fold_draw must be true exactly when the new position's occurrence "
          "count (since and including the position installed by the last set_board / the initial position) just became 3, "
          "evaluate must propose a model-legal move or none; histories = knight shuffles (2-300 repetitions), repetitions "
          "broken by a lost castling right / an e.p. marker, seeded histories biased to reversible shuffles (10-1200 "
          "calls), several engines of one library interleaved; failing histories are shrunk; distinct_nontrivial = "
          "distinct call histories"),
    floor=dict(any={"evaluations": 3000, "occurrence:3rd": 2000, "occurrence:4th": 500, "call:make_move-illegal": 5000, "histories:self-play": 200, "self-play:move-played": 1000,
                    "call:evaluate": 1000, "call:set_board": 2000, "histories:interleaved-engines": 500,
                    "histories:knight-shuffle": 8}),
    watchdog=dict(quick=900, thorough=7200),
    assumptions=[MODEL_ASSUMPTION, CHK_ASSUMPTION,
                 "interpretation: the position installed by set_board (or the initial position of a fresh engine) is "
                 "the first occurrence", "plugin and driver are built by the same compiler; Miri cannot dlopen"],
)


def trace_jobs(ctx):
    jobs = []
    thorough = ctx["tier"] == "thorough"
    for fl, n in (("chk", 6), ("ship", 6)):
        d = ctx["build"](fl, "mon-trace")
        for i in range(n):
            jobs.append(bin_job("C20", "mon-trace", fl, d, ctx, i, n))
    # data-race oracle: Miri on a small workload, several scheduler seeds (release profile)
    nm = 8 if thorough else 3
    mj = miri_jobs("C20", "mon-trace", ctx, nm)
    for i, j in enumerate(mj):
        j["env"] = dict(j["env"], MIRIFLAGS=j["env"]["MIRIFLAGS"] + f" -Zmiri-seed={ctx['seed'] * 100 + i}")
    jobs += mj
    if thorough:
        d = ctx["build"]("tsan", "mon-trace")
        for i in range(4):
            jobs.append(bin_job("C20", "mon-trace", "tsan", d, ctx, i, 4, extra=["--small"],
                                env=dict(TSAN_OPTIONS="halt_on_error=1:exitcode=66")))
    return jobs


def trace_replay(ctx):
    d = ctx["build"]("chk", "mon-trace")
    return subprocess.run([os.path.join(d, "mon-trace"), "C20", "--replay", ctx["replay"]]).returncode


PROPS["C20"] = dict(
    jobs=trace_jobs,
    replay=trace_replay,
    rule=("mechanism 1 (turnstile): each evaluation = one operation-granularity schedule over T worker threads x 8 operations "
          "(enable, disable, toggle, local_enable, local_disable, local_toggle, take, restore); after EVERY step every "
          "thread's is_enabled() is compared with the model (own override if set, else global); all schedules of length 4 "
          "(T=2) and 3 (T=3) (thorough: 5 and 4), a BFS cover of the complete reachable (global, overrides) graph with every "
          "outgoing transition, and seeded schedules of length 200 with T=2..4; mechanism 2 (free running): each "
          "evaluation = one round of 2-4 unsynchronised threads issuing seeded operations, with in-place isolation "
          "assertions (a thread holding an override must read it back whatever others do) and a brute-force "
          "linearizability check of the global flag's write/xor/read history (real-time intervals from one ticket "
          "counter); data races: the same binary under Miri with several scheduler seeds (thorough: more seeds + "
          "ThreadSanitizer); distinct_nontrivial = distinct turnstile schedules"),
    floor=dict(any={"turnstile-schedules:T2-L4": 65536, "turnstile-schedules:T3-L3": 13824,
                    "graph-transitions-covered-T2": 288, "graph-transitions-covered-T3": 1296,
                    "free-running-rounds": 100000, "linearizability-checks": 100000},
               thorough={"turnstile-schedules:T2-L5": 1048576, "turnstile-schedules:T3-L4": 331776,
                         "graph-transitions-covered-T2": 288, "graph-transitions-covered-T3": 1296,
                         "free-running-rounds": 1000000}),
    watchdog=dict(quick=900, thorough=7200),
    assumptions=["operation semantics as documented in DESIGN.md Appendix A.5 (enable/disable set global AND the caller's "
                 "override; toggle flips global and flips a set override)",
                 "sub-operation interleavings are reached only by the free-running mechanism's scheduling and by Miri's "
                 "seeded scheduler; schedule length is bounded"],
)


def c07_jobs(ctx):
    jobs = []
    thorough = ctx["tier"] == "thorough"
    n = 8
    for fl in ("chk", "ship"):
        d = ctx["build"](fl, "mon-core")
        for i in range(n):
            jobs.append(bin_job("C07", "mon-core", fl, d, ctx, i, n))
    jobs += miri_jobs("C07", "mon-core", ctx, 16 if thorough else 4)
    if thorough:
        jobs += [dict(j, name=j["name"].replace("miri", "miri-dev")) for j in miri_jobs("C07", "mon-core", ctx, 8, release=False)]
        d = ctx["build"]("asan", "mon-core")
        for i in range(8):
            jobs.append(bin_job("C07", "mon-core", "asan", d, ctx, i, 8, env=ASAN_ENV))
        d = ctx["build"]("vgbin", "mon-core")
        for i in range(4):
            jobs.append(bin_job("C07", "mon-core", "vg", d, ctx, i, 4, extra=["--small"],
                                wrapper=["valgrind", "--quiet", "--error-exitcode=97", "--tool=memcheck"]))
    return jobs


def c07_post(done):
    """Differential monitor: the same seeded call sequences must produce the same observables in the checked and
    the shipped build (a release-only divergence is a violation)."""
    dig = {}
    for job, res, info in done:
        if res and job.get("flavour") in ("chk", "ship") and res.get("extra"):
            dig.setdefault(res["extra"].get("shard"), {})[job["flavour"]] = (res["extra"].get("digest"), res.get("violation_total", 0))
    out = []
    for shard, d in sorted(dig.items()):
        if "chk" in d and "ship" in d and d["chk"][1] == 0 and d["ship"][1] == 0 and d["chk"][0] != d["ship"][0]:
            out.append(dict(kind="checked-vs-shipped-digest-differs", signature="digest", flavour="chk+ship",
                            detail=f"shard {shard}: digest of all observables is {d['chk'][0]} in the checked build and "
                                   f"{d['ship'][0]} in the shipped build for the same seeded API call sequences",
                            replay=dict(shard=shard)))
    return out


PROPS["C07"] = dict(
    jobs=c07_jobs,
    post=c07_post,
    replay=core_replay("C07"),
    rule=("each evaluation = one seeded sequence of safe public API calls (parse, builder ops + build with clock extremes, "
          "legals / legals_masked / king_legals of either colour, MoveGen next/len/is_empty/size_hint/count/set_mask/remove/"
          "remove_move/clone, is_legal, move_new/mut/into with legal and arbitrary triples, king_sq, state, in_check, zobrist, "
          "Hash, Display, Debug, {:#?}, {:x}/{:X}/{:b}, perft_test(<=2), Engine::search with small poll budgets and a "
          "populated ThreeFold, ThreeFold add/get/Debug, raw accessors, re-parse of the writer's output) on an accepted "
          "position; positions = extremal move-list families (up to 16 mobile men + two e.p. capturers), crafted castling / "
          "promotion / e.p. families, corpus, seeded random placements incl. the 'accepted but not chess' stratum (pawns on "
          "ranks 1/8, implausible e.p. markers), every FEN mutation the parser accepts, plus sentinels (CPW position 3 and its "
          "mirror searched with 200000 polls, terminal / clock-99 positions with 70000-140000 polls, builder clocks "
          "65534/65535 followed by moves, 300 repetitions); the oracle is the build: checked flavour (every panic = "
          "violation), Miri on the release profile (UB), and a chk-vs-ship digest comparison per shard; thorough adds Miri "
          "dev, ASan, valgrind; slider-table and book index ranges are exercised by C08 / C17 in the same flavours; "
          "distinct_nontrivial = distinct (input, sequence seed) pairs"),
    floor=dict(any={"sequences-completed": 3000, "api:search": 3000, "api:movegen-ops": 5000, "positions:extremal": 50, "raw-board-histories": 3000, "printing-cases": 16, "concurrent-first-use-cases": 12, "gate-sweep-double-checks": 500, "positions:must-be-rejected": 1000,
                    "positions:random-accepted-not-chess": 500, "positions:fen-mutation": 3000,
                    "max:move-list-entries-estimated": 18, "sentinel-searches": 8, "clock-extreme-cases": 8,
                    "long-repetition-cases": 2}),
    watchdog=dict(quick=1500, thorough=14400),
    assumptions=[CHK_ASSUMPTION, "Miri interprets the release profile (debug assertions off) so the unchecked fast paths "
                 "are what is checked for UB; ASan cannot see the intra-object overflow of the 18-slot move list (the checked "
                 "build's arrayvec assertion and Miri can)",
                 "RawBoard's own public mutators on a free-standing RawBoard and the unsafe move_unchecked* functions are "
                 "out of scope (not safe calls on an accepted position)"],
)


# ----------------------------------------------------------------------------- libFuzzer job for C06 (thorough)

def _parse_libfuzzer(text):
    import re
    execs, cov, corp = 0, 0, 0
    for m in re.finditer(r"#(\d+): cov: (\d+) ft: (\d+) corp: (\d+)", text):
        execs, cov, corp = max(execs, int(m.group(1))), max(cov, int(m.group(2))), max(corp, int(m.group(4)))
    return dict(evaluations=execs, counters={"libfuzzer-executions": execs, "max:libfuzzer-coverage-edges": cov,
                                             "max:libfuzzer-corpus-size": corp}, tags={}, samples=[], violations=[], notes=[])


def fuzz_job(ctx, seconds, forks):
    fuzz_dir = os.path.join(HARNESS, "fuzz")
    scratch = os.path.join(ctx["TARGET"], "fuzz-corpus")
    art = os.path.join(ctx["TARGET"], "fuzz-artifacts") + os.sep
    os.makedirs(scratch, exist_ok=True)
    os.makedirs(art, exist_ok=True)
    argv = ["cargo", "+nightly", "fuzz", "run", "--target-dir", os.path.join(ctx["TARGET"], "fuzz"), "fen_parse", scratch,
            os.path.join(fuzz_dir, "corpus", "fen_parse"), "--", f"-max_total_time={seconds}", "-timeout=10",
            f"-fork={forks}", f"-artifact_prefix={art}", f"-seed={ctx['seed']}"]
    return dict(name="C06-libfuzzer", argv=argv, flavour="libfuzzer-asan", cwd=fuzz_dir, external=_parse_libfuzzer,
                env=dict(CARGO_NET_OFFLINE="true"))


_c06_core = PROPS["C06"]["jobs"]
PROPS["C06"]["jobs"] = lambda ctx: _c06_core(ctx) + ([fuzz_job(ctx, 600, 8)] if ctx["tier"] == "thorough" else [])
PROPS["C06"]["assumptions"].append("thorough tier adds a coverage-guided libFuzzer run (cargo-fuzz, ASan + debug assertions) of "
                                   "harness/fuzz/fuzz_targets/fen_parse.rs with the same post-parse oracle")
